(* CliProps.v — property C18: the transform subcommands of the command-line tool (Cli.v) satisfy their
   contract.
     collapse : only branches strictly shorter than the threshold (tips excepted with --exclude-tips, the
                root always) get length zero, on both records; nothing else changes
     remove   : exactly the named tips disappear, no unary internal node is left, distances between the
                surviving nodes are preserved
     rescale  : every length is multiplied by the factor *)
From Coq Require Import List Arith Lia Bool Sorted Permutation.
From PT Require Import Arena Spec Queries Cli RepLib WFOps Invariants Effects Paths Traversals.
From PT Require Stats.
Import ListNotations.

(* ================================================================================================ *)
(* 0. small facts                                                                                    *)
(* ================================================================================================ *)
Lemma mem_nat_app_single c done v : mem_nat c (done ++ [v]) = mem_nat c done || Nat.eqb c v.
Proof. unfold mem_nat. rewrite existsb_app. simpl. rewrite orb_false_r. reflexivity. Qed.

Lemma mem_nat_false x l : mem_nat x l = false <-> ~ In x l.
Proof.
  rewrite <- mem_nat_In. destruct (mem_nat x l); split; auto; try congruence.
Qed.

Section EdgeKeys.
Context {L : Type}.

Lemma edge_insert_keys_same (es : list (nat * L)) c v :
  ksorted es -> edge_get es c <> None -> map fst (edge_insert es c v) = map fst es.
Proof.
  unfold ksorted. induction es as [|[k w] es IH]; simpl; [congruence|].
  intros Hs Hg. inversion Hs; subst.
  destruct (Nat.eqb k c) eqn:E; simpl.
  - apply Nat.eqb_eq in E. subst. reflexivity.
  - destruct (Nat.ltb c k) eqn:E2; simpl.
    + exfalso. apply Hg. apply edge_get_above. apply Nat.ltb_lt in E2.
      eapply Forall_impl; [|eassumption]. simpl. intros; lia.
    + f_equal. apply IH; auto.
Qed.

End EdgeKeys.

(* ================================================================================================ *)
(* 1. collapse                                                                                       *)
(* ================================================================================================ *)
Section Collapse.
Context {L : Type}.
Variable O : LenOps L.
Notation arena := (@arena L).
Notation node := (@node L).
Implicit Types (t : arena) (n : node).

(* the body of the loop *)
Definition collapse_step (thr : L) (excl : bool) (t : arena) (v : nat) : outcome arena :=
  n <- get t v ;;
  if excl && is_tip n then Ok t else
  match npedge n, nparent n with
  | Some len, Some p =>
      if lltb O len thr then
        t1 <- upd t v (fun x => node_set_parent x p (Some (l0 O))) ;;
        upd t1 p (fun x => node_set_child_edge x v (Some (l0 O)))
      else Ok t
  | _, _ => Ok t
  end.

Lemma cli_collapse_unfold t thr excl :
  cli_collapse O t thr excl =
  (r <- get_root t ;; pre <- preorder t r ;; foldM (collapse_step thr excl) pre t).
Proof. reflexivity. Qed.

(* the branch above this node is set to zero: the node is live, is not the root, carries a length strictly
   below the threshold, and is not a tip protected by --exclude-tips *)
Definition collapses (thr : L) (excl : bool) n : bool :=
  negb (ndeleted n) && negb (excl && is_tip n) &&
  match npedge n, nparent n with
  | Some len, Some _ => lltb O len thr
  | _, _ => false
  end.

(* every field except the two length records *)
Definition same_but_len n n' : Prop :=
  nid n' = nid n /\ nname n' = nname n /\ nparent n' = nparent n /\ nchildren n' = nchildren n /\
  ncomment n' = ncomment n /\ ndepth n' = ndepth n /\ ndeleted n' = ndeleted n.

Lemma same_but_len_refl n : same_but_len n n.
Proof. repeat split. Qed.

(* ---- the fold invariant ---------------------------------------------------------------------------- *)
Section Fold.
Variables (t0 : arena) (thr : L) (excl : bool).
Hypothesis Hwfs : WFS t0.

(* slot i after the nodes of [done] have been visited *)
Definition slot_rel (done : list nat) (i : nat) n0 n : Prop :=
  same_but_len n0 n /\
  npedge n = (if mem_nat i done && collapses thr excl n0 then Some (l0 O) else npedge n0) /\
  ksorted (nedges n) /\ map fst (nedges n) = map fst (nedges n0) /\
  forall c, edge_get (nedges n) c =
    match nth_error t0 c with
    | Some nc => if mem_nat c done && collapses thr excl nc && onat_eqb (nparent nc) (Some i)
                 then Some (l0 O) else edge_get (nedges n0) c
    | None => edge_get (nedges n0) c
    end.

Definition CInv (done : list nat) (s : arena) : Prop :=
  length s = length t0 /\
  forall i n0, nth_error t0 i = Some n0 -> exists n, nth_error s i = Some n /\ slot_rel done i n0 n.

Lemma CInv_init : CInv [] t0.
Proof.
  split; auto. intros i n0 Hn0. exists n0. split; auto. destruct Hwfs as [_ Hse].
  split; [apply same_but_len_refl|]. split; [reflexivity|]. split; [eapply Hse; eauto|]. split; auto.
  intros c. simpl. destruct (nth_error t0 c); reflexivity.
Qed.

Lemma onat_eqb_Some a b : onat_eqb (Some a) (Some b) = Nat.eqb a b.
Proof. reflexivity. Qed.

Lemma collapse_step_ok done s v :
  CInv done s -> ~ In v done -> live t0 v ->
  exists s', collapse_step thr excl s v = Ok s' /\ CInv (done ++ [v]) s'.
Proof.
  intros [Hlen Hinv] Hv (n0 & Hn0 & Hd0). pose proof Hwfs as [Hwf Hse].
  destruct (Hinv v n0 Hn0) as (n & Hn & Hsb & Hpe & Hks & Hkeys & Hedge).
  pose proof Hsb as (Fid & Fnm & Fpar & Fch & Fcm & Fdp & Fdel).
  apply mem_nat_false in Hv. rewrite Hv in Hpe. simpl in Hpe.
  assert (Hg : get s v = Ok n) by (apply get_Ok; split; auto; congruence).
  assert (Htip : is_tip n = is_tip n0) by (unfold is_tip; rewrite Fch; reflexivity).
  unfold collapse_step. rewrite Hg. cbn [bind]. rewrite Htip, Hpe, Fpar.
  (* the case where nothing is written *)
  assert (Hnop : collapses thr excl n0 = false -> CInv (done ++ [v]) s).
  { intros HC. split; auto. intros i m0 Hm0.
    destruct (Hinv i m0 Hm0) as (m & Hm & Hsb' & Hpe' & Hks' & Hkeys' & Hedge').
    exists m. split; auto. split; auto. split; [|split; [|split]]; auto.
    - rewrite mem_nat_app_single. destruct (Nat.eqb_spec i v) as [->|Hne].
      + assert (m0 = n0) by congruence. subst m0. rewrite HC, !andb_false_r in *. auto.
      + rewrite orb_false_r. auto.
    - intros c. rewrite Hedge'. destruct (nth_error t0 c) as [nc|] eqn:Hnc; auto.
      rewrite mem_nat_app_single. destruct (Nat.eqb_spec c v) as [->|Hne].
      + assert (nc = n0) by congruence. subst nc. rewrite HC, !andb_false_r. simpl. reflexivity.
      + rewrite orb_false_r. auto. }
  unfold collapses in Hnop. rewrite Hd0 in Hnop. cbn [negb andb] in Hnop.
  destruct (excl && is_tip n0) eqn:Eex.
  { exists s. split; auto. }
  cbn [negb andb] in Hnop.
  destruct (npedge n0) as [len|] eqn:Epe; [|exists s; split; auto].
  destruct (nparent n0) as [p|] eqn:Epar; [|exists s; split; auto].
  destruct (lltb O len thr) eqn:Elt; [|exists s; split; auto].
  clear Hnop.
  assert (HC : collapses thr excl n0 = true).
  { unfold collapses. rewrite Hd0, Eex, Epe, Epar, Elt. reflexivity. }
  (* the parent *)
  assert (Hg0 : get t0 v = Ok n0) by (apply get_Ok; auto).
  destruct (WF_parent_of _ _ _ _ Hwf Hg0 Epar) as (nP0 & HgP0 & HvP0).
  apply get_Ok in HgP0 as [HnP0 HdP0].
  destruct (WF_node_facts t0 p nP0 Hwf HnP0 HdP0) as (_ & Hchl & _ & _).
  destruct (Hchl _ HvP0) as [_ Hvp].
  destruct (WF_child t0 p nP0 v Hwf HnP0 HdP0 HvP0) as (n0' & Hn0' & _ & _ & _ & HeP0 & _).
  assert (n0' = n0) by congruence. subst n0'.
  destruct (Hinv p nP0 HnP0) as (nP & HnP & HsbP & HpeP & HksP & HkeysP & HedgeP).
  pose proof HsbP as (FidP & FnmP & FparP & FchP & FcmP & FdpP & FdelP).
  rewrite (upd_Ok _ _ _ _ Hg). cbn [bind].
  assert (HgP : get (replace_nth v (node_set_parent n p (Some (l0 O))) s) p = Ok nP).
  { apply get_Ok. rewrite nth_error_replace_nth_neq by auto. split; auto. congruence. }
  rewrite (upd_Ok _ _ _ _ HgP).
  eexists. split; [reflexivity|].
  assert (Hvlt : v < length s) by (eapply nth_error_Some_lt; eauto).
  assert (Hplt : p < length s) by (eapply nth_error_Some_lt; eauto).
  assert (HeP : edge_get (nedges nP) v = Some len).
  { rewrite HedgeP, Hn0, Hv. simpl. rewrite HeP0. auto. }
  split; [rewrite !replace_nth_length; auto|].
  intros i m0 Hm0.
  destruct (Nat.eq_dec i p) as [->|Hip]; [|destruct (Nat.eq_dec i v) as [->|Hiv]].
  - (* the parent's slot *)
    assert (m0 = nP0) by congruence. subst m0.
    rewrite nth_error_replace_nth_eq by (rewrite replace_nth_length; auto).
    eexists. split; [reflexivity|]. cbn [node_set_child_edge].
    split; [exact HsbP|]. cbn [npedge set_nedges nedges].
    split; [|split; [|split]].
    + rewrite mem_nat_app_single. destruct (Nat.eqb_spec p v); [congruence|]. rewrite orb_false_r. auto.
    + apply ksorted_insert; auto.
    + rewrite edge_insert_keys_same; auto. congruence.
    + intros c. destruct (Nat.eq_dec c v) as [->|Hcv].
      * rewrite edge_get_insert_eq, Hn0, mem_nat_app_single, Nat.eqb_refl, orb_true_r, HC.
        rewrite Epar, onat_eqb_Some, Nat.eqb_refl. reflexivity.
      * rewrite edge_get_insert_neq by auto. rewrite HedgeP.
        destruct (nth_error t0 c) as [nc|]; auto. rewrite mem_nat_app_single.
        destruct (Nat.eqb_spec c v); [congruence|]. rewrite orb_false_r. auto.
  - (* the node's own slot *)
    assert (m0 = n0) by congruence. subst m0.
    rewrite nth_error_replace_nth_neq by auto.
    rewrite nth_error_replace_nth_eq by auto.
    eexists. split; [reflexivity|].
    split; [repeat split; simpl; auto; congruence|]. cbn [npedge node_set_parent nedges].
    split; [|split; [|split]]; auto.
    + rewrite mem_nat_app_single, Nat.eqb_refl, orb_true_r, HC. reflexivity.
    + intros c. rewrite Hedge. destruct (nth_error t0 c) as [nc|] eqn:Hnc; auto.
      rewrite mem_nat_app_single. destruct (Nat.eqb_spec c v) as [->|Hne].
      * assert (nc = n0) by congruence. subst nc. rewrite Epar, onat_eqb_Some.
        destruct (Nat.eqb_spec p v); [congruence|]. rewrite !andb_false_r. reflexivity.
      * rewrite orb_false_r. auto.
  - (* the other slots *)
    rewrite !nth_error_replace_nth_neq by auto.
    destruct (Hinv i m0 Hm0) as (m & Hm & Hsb' & Hpe' & Hks' & Hkeys' & Hedge').
    exists m. split; auto. split; auto. split; [|split; [|split]]; auto.
    + rewrite mem_nat_app_single. destruct (Nat.eqb_spec i v); [congruence|]. rewrite orb_false_r. auto.
    + intros c. rewrite Hedge'. destruct (nth_error t0 c) as [nc|] eqn:Hnc; auto.
      rewrite mem_nat_app_single. destruct (Nat.eqb_spec c v) as [->|Hne].
      * assert (nc = n0) by congruence. subst nc. rewrite Epar, onat_eqb_Some.
        destruct (Nat.eqb_spec p i); [congruence|]. rewrite !andb_false_r. reflexivity.
      * rewrite orb_false_r. auto.
Qed.

Lemma collapse_fold_ok : forall todo done s,
  CInv done s -> NoDup (done ++ todo) -> (forall v, In v todo -> live t0 v) ->
  exists s', foldM (collapse_step thr excl) todo s = Ok s' /\ CInv (done ++ todo) s'.
Proof.
  induction todo as [|v todo IH]; intros done s HI Hnd Hl.
  - exists s. rewrite app_nil_r. auto.
  - assert (Hv : ~ In v done).
    { intros Hin. apply NoDup_app_iff in Hnd as (_ & _ & Hdisj). apply (Hdisj v); simpl; auto. }
    destruct (collapse_step_ok done s v HI Hv (Hl v (or_introl eq_refl))) as (s1 & Hs1 & HI1).
    destruct (IH (done ++ [v]) s1 HI1) as (s' & Hs' & HI').
    { rewrite <- app_assoc. exact Hnd. }
    { intros; apply Hl; simpl; auto. }
    exists s'. cbn [foldM]. rewrite Hs1. cbn [bind]. rewrite <- app_assoc in HI'. auto.
Qed.

End Fold.

(* ---- transporting Rep along a change of the length records ------------------------------------------ *)
Lemma Rep_transfer (t t' : arena) : forall r p d i,
  Rep t p d i r ->
  (forall j n, In j (ids r) -> nth_error t j = Some n ->
     exists n', nth_error t' j = Some n' /\ same_but_len n n' /\
       (forall c nc', In c (nchildren n') -> nth_error t' c = Some nc' -> edge_get (nedges n') c = npedge nc') /\
       (forall c, edge_get (nedges n') c <> None -> In c (nchildren n'))) ->
  Rep t' p d i r.
Proof.
  induction r as [i0 cs IH] using RepLib.rtree_ind'. intros p d j HR Hfr.
  destruct (RepLib.Rep_inv _ _ _ _ _ HR) as (n & cs' & Heq & Hn & Hdel & Hid & Hp & Hd & HF & He1 & He2).
  injection Heq as -> ->.
  destruct (Hfr j n) as (n' & Hn' & (Fid & Fnm & Fpar & Fch & Fcm & Fdp & Fdel) & Hm1 & Hm2); auto.
  { rewrite ids_RT; simpl; auto. }
  apply Rep_node with (n := n'); auto; try congruence.
  rewrite Fch. eapply Forall2_impl_In; [|eassumption]. simpl. intros a b _ Hb HRb.
  rewrite Forall_forall in IH. eapply IH; eauto.
  intros k nk Hk Hnk. apply Hfr; auto. rewrite ids_RT. right. apply in_flat_map. eauto.
Qed.

Lemma collapses_live thr excl n : collapses thr excl n = true -> ndeleted n = false.
Proof. unfold collapses. destruct (ndeleted n); simpl; auto. Qed.

Lemma collapses_spec thr excl n :
  collapses thr excl n = true <->
  ndeleted n = false /\ (exists p, nparent n = Some p) /\
  (exists len, npedge n = Some len /\ lltb O len thr = true) /\
  (excl = true -> is_tip n = false).
Proof.
  unfold collapses. split.
  - intros H. apply andb_prop in H as [H H3]. apply andb_prop in H as [H1 H2].
    destruct (npedge n) as [len|]; [|discriminate]. destruct (nparent n) as [p|]; [|discriminate].
    repeat split; eauto.
    + destruct (ndeleted n); auto; discriminate.
    + intros ->. simpl in H2. destruct (is_tip n); auto; discriminate.
  - intros (Hd & (p & Hp) & (len & Hl & Hlt) & Hex). rewrite Hd, Hp, Hl, Hlt.
    destruct excl; simpl; auto. rewrite Hex; auto.
Qed.

(* ---- what collapse does to slot i ---------------------------------------------------------------------- *)
(* every field but the two length records is kept; the node's own length becomes zero exactly when
   [collapses] holds of the original slot; the child-side record keeps its keys, and the entry for c becomes
   zero exactly when c is a child of i whose own length was set to zero *)
Definition collapse_slot (t : arena) thr excl (i : nat) n n' : Prop :=
  same_but_len n n' /\
  npedge n' = (if collapses thr excl n then Some (l0 O) else npedge n) /\
  ksorted (nedges n') /\ map fst (nedges n') = map fst (nedges n) /\
  forall c, edge_get (nedges n') c =
    match nth_error t c with
    | Some nc => if collapses thr excl nc && onat_eqb (nparent nc) (Some i)
                 then Some (l0 O) else edge_get (nedges n) c
    | None => edge_get (nedges n) c
    end.

Definition collapse_post (t : arena) thr excl (t' : arena) : Prop :=
  length t' = length t /\
  forall i n, nth_error t i = Some n -> exists n', nth_error t' i = Some n' /\ collapse_slot t thr excl i n n'.

Lemma CInv_post t thr excl root r t' :
  Rep t None 0 root r -> (forall i, live t i -> In i (ids r)) ->
  CInv t thr excl (ids r) t' -> collapse_post t thr excl t'.
Proof.
  intros HR Hcov [Hlen Hinv]. split; auto. intros i n Hn.
  assert (Hmem : forall j m, nth_error t j = Some m ->
            mem_nat j (ids r) && collapses thr excl m = collapses thr excl m).
  { intros j m Hm. destruct (collapses thr excl m) eqn:E; [|apply andb_false_r].
    rewrite andb_true_r. apply mem_nat_In, Hcov. exists m. split; auto. eapply collapses_live; eauto. }
  destruct (Hinv i n Hn) as (n' & Hn' & Hsb & Hpe & Hks & Hkeys & Hedge).
  exists n'. split; auto. split; auto. split; [|split; [|split]]; auto.
  - rewrite Hpe, (Hmem i n); auto.
  - intros c. rewrite Hedge. destruct (nth_error t c) as [nc|] eqn:Hnc; auto. rewrite (Hmem c nc); auto.
Qed.

(* the run: on a well-formed arena holding a tree the loop runs to completion *)
Lemma collapse_run t thr excl root r :
  WFS t -> Rep t None 0 root r ->
  exists t', cli_collapse O t thr excl = Ok t' /\ collapse_post t thr excl t'.
Proof.
  intros Hwfs HR. destruct (WFS_Rep _ _ _ Hwfs HR) as [Hnd Hcov].
  rewrite cli_collapse_unfold, (Stats.get_root_refines t root r HR Hcov). cbn [bind].
  rewrite (preorder_refines _ _ _ _ _ HR Hnd). cbn [bind].
  destruct (collapse_fold_ok t thr excl Hwfs (pre r) [] t (CInv_init t thr excl Hwfs)) as (t' & Hf & HI).
  { exact Hnd. }
  { intros v Hv. eapply Rep_ids_live; eauto. }
  exists t'. split; auto. eapply CInv_post; eauto.
Qed.

(* the consequences of the slot-wise description *)
Lemma collapse_post_Rep t thr excl t' :
  WFS t -> collapse_post t thr excl t' ->
  forall r p d i, Rep t p d i r -> Rep t' p d i r.
Proof.
  intros [Hwf Hse] [Hlen Hpost] r p d i HR. eapply Rep_transfer; [exact HR|].
  intros j n Hj Hn. pose proof (Rep_ids_live _ _ _ _ _ _ HR Hj) as (n0 & Hn0 & Hdn).
  assert (n0 = n) by congruence. subst n0.
  destruct (Hpost j n Hn) as (n' & Hn' & Hsb & Hpe & Hks & Hkeys & Hedge).
  pose proof Hsb as (Fid & Fnm & Fpar & Fch & Fcm & Fdp & Fdel).
  destruct (WF_node_facts t j n Hwf Hn Hdn) as (_ & _ & He2 & _).
  exists n'. split; auto. split; auto. split.
  - intros c nc' Hc Hnc'. rewrite Fch in Hc.
    destruct (WF_child t j n c Hwf Hn Hdn Hc) as (nc & Hnc & Hdc & Hpc & _ & Hec & _).
    destruct (Hpost c nc Hnc) as (nc2 & Hnc2 & _ & Hpec & _).
    assert (nc2 = nc') by congruence. subst nc2.
    rewrite Hedge, Hnc, Hpec, Hpc. simpl. rewrite Nat.eqb_refl, andb_true_r, Hec. reflexivity.
  - intros c Hc. rewrite Fch. rewrite Hedge in Hc.
    destruct (nth_error t c) as [nc|] eqn:Hnc; [|auto].
    destruct (collapses thr excl nc && onat_eqb (nparent nc) (Some j)) eqn:E; [|auto].
    apply andb_prop in E as [E1 E2]. apply onat_eqb_spec in E2.
    assert (Hgc : get t c = Ok nc) by (apply get_Ok; split; auto; eapply collapses_live; eauto).
    destruct (WF_parent_of _ _ _ _ Hwf Hgc E2) as (nP & HgP & Hin).
    apply get_Ok in HgP as [HnP _]. congruence.
Qed.

Lemma collapse_post_live t thr excl t' i :
  collapse_post t thr excl t' -> (live t' i <-> live t i).
Proof.
  intros [Hlen Hpost]. split.
  - intros (n' & Hn' & Hd'). pose proof (nth_error_Some_lt _ _ _ Hn') as Hlt. rewrite Hlen in Hlt.
    destruct (nth_error t i) as [n|] eqn:Hn; [|apply nth_error_None in Hn; lia].
    destruct (Hpost i n Hn) as (n2 & Hn2 & (_ & _ & _ & _ & _ & _ & Fdel) & _).
    exists n. split; auto. congruence.
  - intros (n & Hn & Hd). destruct (Hpost i n Hn) as (n' & Hn' & (_ & _ & _ & _ & _ & _ & Fdel) & _).
    exists n'. split; auto. congruence.
Qed.

Lemma collapse_post_wfs t thr excl t' : WFS t -> collapse_post t thr excl t' -> WFS t'.
Proof.
  intros Hwfs Hpost. pose proof Hwfs as [Hwf Hse]. split.
  - destruct Hwf as [Hno|(root & r & HR & Hnd & Hlive)].
    + left. intros i Hi. apply (Hno i). apply (proj1 (collapse_post_live _ _ _ _ i Hpost)); auto.
    + right. exists root, r. split; [eapply collapse_post_Rep; eauto|]. split; auto.
      intros i Hi. apply Hlive. apply (proj1 (collapse_post_live _ _ _ _ i Hpost)); auto.
  - destruct Hpost as [Hlen Hpost]. intros i n' Hn'.
    pose proof (nth_error_Some_lt _ _ _ Hn') as Hlt. rewrite Hlen in Hlt.
    destruct (nth_error t i) as [n|] eqn:Hn; [|apply nth_error_None in Hn; lia].
    destruct (Hpost i n Hn) as (n2 & Hn2 & _ & _ & Hks & _). congruence.
Qed.

Lemma collapse_post_blank t thr excl t' : Stats.Blank t -> collapse_post t thr excl t' -> Stats.Blank t'.
Proof.
  intros HB [Hlen Hpost] i n' Hn' Hd'.
  pose proof (nth_error_Some_lt _ _ _ Hn') as Hlt. rewrite Hlen in Hlt.
  destruct (nth_error t i) as [n|] eqn:Hn; [|apply nth_error_None in Hn; lia].
  destruct (Hpost i n Hn) as (n2 & Hn2 & (Fid & Fnm & Fpar & Fch & Fcm & Fdp & Fdel) & Hpe & _ & Hkeys & _).
  assert (n2 = n') by congruence. subst n2.
  assert (n = tombstone) by (apply (HB i); auto; congruence). subst n.
  unfold collapses in Hpe. simpl in *.
  destruct n' as [a b c d e f g h k]. simpl in *. subst.
  destruct g; [reflexivity|discriminate].
Qed.

(* ---- the theorems ---------------------------------------------------------------------------------------- *)
(* 1a. collapse never panics and never runs out of fuel: on an arena holding a tree it succeeds, on an arena
   without any live node it reports the missing root *)
Theorem collapse_ok t thr excl :
  Inv t ->
  (exists t', cli_collapse O t thr excl = Ok t') \/
  ((forall i, ~ live t i) /\ cli_collapse O t thr excl = Err RootNotFound).
Proof.
  intros HI. pose proof (Inv_WFS _ HI) as Hwfs. destruct (Inv_WF _ HI) as [Hno|(root & r & HR & _)].
  - right. split; auto. rewrite cli_collapse_unfold.
    destruct (Stats.empty_root t Hno) as [-> _]. reflexivity.
  - left. destruct (collapse_run t thr excl root r Hwfs HR) as (t' & Ht' & _). eauto.
Qed.

Corollary collapse_total t thr excl root r :
  WFS t -> Rep t None 0 root r -> exists t', cli_collapse O t thr excl = Ok t'.
Proof. intros Hwfs HR. destruct (collapse_run t thr excl root r Hwfs HR) as (t' & Ht' & _). eauto. Qed.

Lemma collapse_Ok_post t thr excl t' :
  WFS t -> cli_collapse O t thr excl = Ok t' -> collapse_post t thr excl t'.
Proof.
  intros Hwfs H. pose proof Hwfs as [[Hno|(root & r & HR & _)] _].
  - rewrite cli_collapse_unfold in H. destruct (Stats.empty_root t Hno) as [E _]. rewrite E in H. discriminate.
  - destruct (collapse_run t thr excl root r Hwfs HR) as (t2 & Ht2 & Hpost). congruence.
Qed.

(* 1b. the invariant of reachable arenas is preserved *)
Theorem collapse_wfs t thr excl t' : WFS t -> cli_collapse O t thr excl = Ok t' -> WFS t'.
Proof. intros Hwfs H. eapply collapse_post_wfs; eauto. eapply collapse_Ok_post; eauto. Qed.

Theorem collapse_inv t thr excl t' : Inv t -> cli_collapse O t thr excl = Ok t' -> Inv t'.
Proof.
  intros HI H. pose proof (collapse_Ok_post _ _ _ _ (Inv_WFS _ HI) H) as Hpost. split.
  - eapply collapse_post_wfs; eauto. apply Inv_WFS; auto.
  - eapply collapse_post_blank; eauto. apply Inv_Blank; auto.
Qed.

(* 2. the exact effect, slot by slot; the represented tree (topology, child order) is the same *)
Theorem collapse_exact t thr excl t' :
  WFS t -> cli_collapse O t thr excl = Ok t' ->
  length t' = length t /\
  (forall i n, nth_error t i = Some n ->
     exists n', nth_error t' i = Some n' /\ collapse_slot t thr excl i n n') /\
  (forall i, live t' i <-> live t i) /\
  (forall root r, Rep t None 0 root r -> Rep t' None 0 root r).
Proof.
  intros Hwfs H. pose proof (collapse_Ok_post _ _ _ _ Hwfs H) as Hpost.
  split; [apply Hpost|]. split; [apply Hpost|]. split.
  - intros i. eapply collapse_post_live; eauto.
  - intros root r HR. eapply collapse_post_Rep; eauto.
Qed.

(* ---- readable consequences ---------------------------------------------------------------------------- *)
(* a length changes only by becoming zero, and only when [collapses] holds *)
Corollary collapse_lengths t thr excl t' i n n' :
  WFS t -> cli_collapse O t thr excl = Ok t' -> nth_error t i = Some n -> nth_error t' i = Some n' ->
  (collapses thr excl n = true /\ npedge n' = Some (l0 O)) \/
  (collapses thr excl n = false /\ npedge n' = npedge n).
Proof.
  intros Hwfs H Hn Hn'. destruct (collapse_exact _ _ _ _ Hwfs H) as (_ & Hs & _).
  destruct (Hs i n Hn) as (n2 & Hn2 & _ & Hpe & _). assert (n2 = n') by congruence. subst n2.
  destruct (collapses thr excl n); auto.
Qed.

(* a branch that is not strictly shorter than the threshold keeps its length *)
Corollary collapse_long_kept t thr excl t' i n n' len :
  WFS t -> cli_collapse O t thr excl = Ok t' -> nth_error t i = Some n -> nth_error t' i = Some n' ->
  npedge n = Some len -> lltb O len thr = false -> npedge n' = Some len.
Proof.
  intros Hwfs H Hn Hn' Hl Hlt.
  destruct (collapse_lengths _ _ _ _ _ _ _ Hwfs H Hn Hn') as [[HC _]|[_ ->]]; auto.
  apply collapses_spec in HC as (_ & _ & (len' & Hl' & Hlt') & _). congruence.
Qed.

(* a node without a length stays without; the root (no parent) is never touched; with --exclude-tips the
   tips are never touched *)
Corollary collapse_none_kept t thr excl t' i n n' :
  WFS t -> cli_collapse O t thr excl = Ok t' -> nth_error t i = Some n -> nth_error t' i = Some n' ->
  npedge n = None -> npedge n' = None.
Proof.
  intros Hwfs H Hn Hn' Hl.
  destruct (collapse_lengths _ _ _ _ _ _ _ Hwfs H Hn Hn') as [[HC _]|[_ ->]]; auto.
  apply collapses_spec in HC as (_ & _ & (len' & Hl' & _) & _). congruence.
Qed.

Corollary collapse_root_kept t thr excl t' i n n' :
  WFS t -> cli_collapse O t thr excl = Ok t' -> nth_error t i = Some n -> nth_error t' i = Some n' ->
  nparent n = None -> npedge n' = npedge n.
Proof.
  intros Hwfs H Hn Hn' Hp.
  destruct (collapse_lengths _ _ _ _ _ _ _ Hwfs H Hn Hn') as [[HC _]|[_ ->]]; auto.
  apply collapses_spec in HC as (_ & (p & Hp') & _). congruence.
Qed.

Corollary collapse_tips_kept t thr t' i n n' :
  WFS t -> cli_collapse O t thr true = Ok t' -> nth_error t i = Some n -> nth_error t' i = Some n' ->
  is_tip n = true -> npedge n' = npedge n.
Proof.
  intros Hwfs H Hn Hn' Ht.
  destruct (collapse_lengths _ _ _ _ _ _ _ Hwfs H Hn Hn') as [[HC _]|[_ ->]]; auto.
  apply collapses_spec in HC as (_ & _ & _ & Hex). rewrite Hex in Ht; auto. discriminate.
Qed.

(* a short branch of a live non-root node (not a protected tip) does become zero *)
Corollary collapse_short_zero t thr excl t' i n n' p len :
  WFS t -> cli_collapse O t thr excl = Ok t' -> nth_error t i = Some n -> nth_error t' i = Some n' ->
  ndeleted n = false -> nparent n = Some p -> npedge n = Some len -> lltb O len thr = true ->
  (excl = true -> is_tip n = false) -> npedge n' = Some (l0 O).
Proof.
  intros Hwfs H Hn Hn' Hd Hp Hl Hlt Hex.
  destruct (collapse_lengths _ _ _ _ _ _ _ Hwfs H Hn Hn') as [[_ ->]|[HC _]]; auto.
  assert (collapses thr excl n = true) by (apply collapses_spec; eauto 10). congruence.
Qed.

(* names, comments, parents, child lists, depths, liveness: untouched *)
Corollary collapse_labels t thr excl t' i n n' :
  WFS t -> cli_collapse O t thr excl = Ok t' -> nth_error t i = Some n -> nth_error t' i = Some n' ->
  nid n' = nid n /\ nname n' = nname n /\ nparent n' = nparent n /\ nchildren n' = nchildren n /\
  ncomment n' = ncomment n /\ ndepth n' = ndepth n /\ ndeleted n' = ndeleted n /\
  map fst (nedges n') = map fst (nedges n).
Proof.
  intros Hwfs H Hn Hn'. destruct (collapse_exact _ _ _ _ Hwfs H) as (_ & Hs & _).
  destruct (Hs i n Hn) as (n2 & Hn2 & (? & ? & ? & ? & ? & ? & ?) & _ & _ & ? & _).
  assert (n2 = n') by congruence. subst n2. splits; auto.
Qed.

(* the parent-side record mirrors the child's own length, also after the collapse *)
Corollary collapse_mirror t thr excl t' i n' c nc' :
  WFS t -> cli_collapse O t thr excl = Ok t' ->
  nth_error t' i = Some n' -> ndeleted n' = false -> In c (nchildren n') -> nth_error t' c = Some nc' ->
  edge_get (nedges n') c = npedge nc'.
Proof.
  intros Hwfs H Hn' Hd' Hc Hnc'. pose proof (collapse_wfs _ _ _ _ Hwfs H) as [Hwf' _].
  destruct (WF_child t' i n' c Hwf' Hn' Hd' Hc) as (nc & Hnc & _ & _ & _ & He & _). congruence.
Qed.

(* the set of leaves is the same *)
Corollary collapse_leaves t thr excl t' :
  WFS t -> cli_collapse O t thr excl = Ok t' -> get_leaves t' = get_leaves t.
Proof.
  intros Hwfs H. destruct (collapse_exact _ _ _ _ Hwfs H) as (Hlen & Hs & _).
  apply get_leaves_ext; [lia| |].
  - intros j n n' Hn Hn'. destruct (Hs j n Hn) as (n2 & Hn2 & (Fid & _ & _ & Fch & _ & _ & Fdel) & _).
    assert (n2 = n') by congruence. subst n2. unfold leafkey, is_tip. rewrite Fid, Fch, Fdel. reflexivity.
  - intros j n' Hj Hn'. apply nth_error_Some_lt in Hn'. lia.
Qed.

(* distances after the collapse: the same path, where the collapsed branches count for zero *)
Definition collapsed_edge (t : arena) thr excl (j : nat) : option L :=
  match nth_error t j with
  | Some n => if collapses thr excl n then Some (l0 O) else npedge n
  | None => None
  end.

Corollary collapse_dist t thr excl t' root r a b :
  WFS t -> Rep t None 0 root r -> cli_collapse O t thr excl = Ok t' -> In a (ids r) -> In b (ids r) ->
  exists pa pb, rpath a r = Some pa /\ rpath b r = Some pb /\
    let ta := skipn (cpl pa pb) pa in
    let tb := skipn (cpl pa pb) pb in
    get_distance O t a b = Ok (path_len O (map (edge_of t) (ta ++ tb)), length ta + length tb) /\
    get_distance O t' a b = Ok (path_len O (map (collapsed_edge t thr excl) (ta ++ tb)), length ta + length tb).
Proof.
  intros Hwfs HR H Ha Hb. destruct (WFS_Rep _ _ _ Hwfs HR) as [Hnd _].
  destruct (collapse_exact _ _ _ _ Hwfs H) as (Hlen & Hs & _ & HRt).
  destruct (dist_refines O _ _ _ _ _ HR Hnd Ha Hb) as (pa & pb & Hpa & Hpb & Hd).
  destruct (dist_refines O _ _ _ _ _ (HRt _ _ HR) Hnd Ha Hb) as (pa' & pb' & Hpa' & Hpb' & Hd').
  assert (pa' = pa) by congruence. assert (pb' = pb) by congruence. subst pa' pb'.
  exists pa, pb. split; auto. split; auto. cbv zeta in *. split; auto.
  rewrite Hd'. f_equal. f_equal. f_equal. apply map_ext. intros j.
  unfold edge_of, collapsed_edge. destruct (nth_error t j) as [n|] eqn:Hn.
  - destruct (Hs j n Hn) as (n' & -> & _ & -> & _). reflexivity.
  - apply nth_error_None in Hn. rewrite (proj2 (nth_error_None t' j)) by lia. reflexivity.
Qed.

End Collapse.

(* ================================================================================================ *)
(* 2. remove                                                                                         *)
(* ================================================================================================ *)
(* downward chains survive in the original tree *)
Lemma rchain_rdel x : forall r q, rchain (rdel x r) q -> rchain r q.
Proof.
  induction r as [i cs IH] using RepLib.rtree_ind'. intros q H. rewrite rdel_RT in H.
  inversion H as [|? ? c' q' Hc' Hq']; subst; [constructor|].
  apply in_map_iff in Hc' as (c & <- & Hc). apply filter_In in Hc as [Hc _].
  rewrite Forall_forall in IH. econstructor; eauto.
Qed.

Lemma rpath_rdel x r a q :
  NoDup (ids r) -> NoDup (ids (rdel x r)) -> rpath a (rdel x r) = Some q -> rpath a r = Some q.
Proof.
  intros Hnd Hnd' H. apply (rpath_iff_chain a _ q Hnd') in H as [Hc Hl].
  apply (rpath_iff_chain a r q Hnd). split; auto. eapply rchain_rdel; eauto.
Qed.

Lemma In_skipn {A} (x : A) k l : In x (skipn k l) -> In x l.
Proof. intros H. rewrite <- (firstn_skipn k l). apply in_or_app; auto. Qed.

Section Remove.
Context {L : Type}.
Variable O : LenOps L.
Notation arena := (@arena L).
Notation node := (@node L).
Implicit Types (t : arena) (n : node).

Definition remove_step (t : arena) (nm : str) : outcome arena :=
  match get_by_name t nm with
  | None => Panic 40
  | Some n => if is_tip n then prune t (nid n) else Panic 41
  end.

Definition compress_result (t1 : arena) : outcome arena :=
  match compress O t1 with
  | (Ok t2, _) => Ok t2
  | (Err e, _) => Err e
  | (Panic s, _) => Panic s
  | (OutOfFuel, _) => OutOfFuel
  end.

Lemma cli_remove_unfold t tips :
  cli_remove O t tips = (t1 <- foldM remove_step tips t ;; compress_result t1).
Proof. reflexivity. Qed.

Lemma compress_result_fst t1 : compress_result t1 = fst (compress O t1).
Proof. unfold compress_result. destruct (compress O t1) as [[| | |] ?]; reflexivity. Qed.

(* ---- the node found by name ------------------------------------------------------------------------- *)
Lemma get_by_name_slot t nm n :
  Inv t -> get_by_name t nm = Some n ->
  nth_error t (nid n) = Some n /\ ndeleted n = false /\ exists x, nname n = Some x /\ str_eqb x nm = true.
Proof.
  intros HI H. unfold get_by_name in H. apply find_some in H as [Hin Hnm].
  destruct (nname n) as [x|] eqn:Ex; [|discriminate].
  apply In_nth_error in Hin as (j & Hj).
  assert (Hd : ndeleted n = false).
  { destruct (ndeleted n) eqn:E; auto. rewrite (Inv_Blank _ HI j n Hj E) in Ex. discriminate. }
  destruct (WF_node_facts t j n (Inv_WF _ HI) Hj Hd) as (_ & _ & _ & ->). eauto.
Qed.

(* ---- prune: survivors, distances, leaves ------------------------------------------------------------ *)
Lemma prune_live t t' x :
  WFS t -> prune t x = Ok t' -> forall i, live t' i -> live t i /\ i <> x.
Proof.
  intros Hwfs Hpr i Hi. pose proof (prune_f_live _ _ _ _ Hpr) as Hlx. pose proof Hwfs as [Hwf _].
  destruct Hwf as [Hno|(root & r & HR & Hnd & Hlive)]; [exfalso; eapply Hno; eauto|].
  destruct (Nat.eq_dec x root) as [->|Hne].
  - destruct (prune_root _ _ _ _ Hwfs HR Hpr) as (Hno & _). exfalso. eapply Hno; eauto.
  - destruct (prune_exact _ _ _ _ _ Hwfs HR (Hlive _ Hlx) Hne Hpr)
      as (P & sx & nP & nP' & _ & Hsx & _ & _ & Hl' & Hids & _).
    apply Hl', Hids in Hi as [Hi Hnsx]. split; [eapply Rep_ids_live; eauto|].
    intros ->. apply Hnsx. rewrite <- (rsub_rid _ _ _ Hsx). apply In_rid_ids.
Qed.

Theorem prune_dist t t' x a b :
  WFS t -> prune t x = Ok t' -> live t' a -> live t' b ->
  get_distance O t' a b = get_distance O t a b.
Proof.
  intros Hwfs Hpr Ha Hb. pose proof (prune_f_live _ _ _ _ Hpr) as Hlx. pose proof Hwfs as [Hwf _].
  destruct Hwf as [Hno|(root & r & HR & Hnd & Hlive)]; [exfalso; eapply Hno; eauto|].
  destruct (Nat.eq_dec x root) as [->|Hne].
  - destruct (prune_root _ _ _ _ Hwfs HR Hpr) as (Hno & _). exfalso. eapply Hno; eauto.
  - destruct (prune_exact _ _ _ _ _ Hwfs HR (Hlive _ Hlx) Hne Hpr)
      as (P & sx & nP & nP' & _ & Hsx & HR' & Hnd' & Hl' & Hids & _ & _ & Hfr & HnP & HnP' & HPsx & Hlab & _).
    apply Hl' in Ha, Hb.
    destruct (dist_refines O _ _ _ _ _ HR' Hnd' Ha Hb) as (pa & pb & Hpa & Hpb & Hd').
    pose proof (rpath_rdel _ _ _ _ Hnd Hnd' Hpa) as Hpa0.
    pose proof (rpath_rdel _ _ _ _ Hnd Hnd' Hpb) as Hpb0.
    apply Hids in Ha as [Ha0 _]. apply Hids in Hb as [Hb0 _].
    destruct (dist_refines O _ _ _ _ _ HR Hnd Ha0 Hb0) as (pa0 & pb0 & Hpa0' & Hpb0' & Hd).
    assert (pa0 = pa) by congruence. assert (pb0 = pb) by congruence. subst pa0 pb0.
    cbv zeta in *. rewrite Hd, Hd'. f_equal. f_equal. f_equal.
    apply map_ext_in. intros j Hj.
    assert (Hjr : In j (ids (rdel x r))).
    { apply in_app_or in Hj as [Hj|Hj]; apply In_skipn in Hj.
      - apply (rpath_incl _ _ _ Hpa); auto.
      - apply (rpath_incl _ _ _ Hpb); auto. }
    apply Hids in Hjr as [_ Hjsx]. unfold edge_of.
    destruct (Nat.eq_dec j P) as [->|HjP].
    + rewrite HnP, HnP'. destruct Hlab as (_ & _ & _ & Hpe & _). auto.
    + rewrite Hfr; auto.
Qed.

Lemma In_get_leaves t a :
  WFS t -> (In a (get_leaves t) <-> exists n, nth_error t a = Some n /\ ndeleted n = false /\ nchildren n = []).
Proof.
  intros [Hwf _]. unfold get_leaves. split.
  - intros H. apply in_map_iff in H as (n & <- & Hn).
    apply filter_In in Hn as [Hn Hb]. apply andb_prop in Hb as [Hd Ht]. apply negb_true_iff in Hd.
    apply In_nth_error in Hn as (j & Hj).
    destruct (WF_node_facts t j n Hwf Hj Hd) as (_ & _ & _ & ->). exists n. split; auto. split; auto.
    unfold is_tip in Ht. destruct (nchildren n); auto; discriminate.
  - intros (n & Hn & Hd & Hc). destruct (WF_node_facts t a n Hwf Hn Hd) as (_ & _ & _ & Hid).
    apply in_map_iff. exists n. split; auto. apply filter_In. split; [eapply nth_error_In; eauto|].
    unfold is_tip. rewrite Hd, Hc. reflexivity.
Qed.

(* pruning a tip leaves the other leaves in place *)
Lemma prune_tip_leaves t t' x nx a :
  WFS t -> nth_error t x = Some nx -> nchildren nx = [] -> prune t x = Ok t' ->
  In a (get_leaves t) -> a <> x -> In a (get_leaves t').
Proof.
  intros Hwfs Hnx Hchx Hpr Ha Hax. pose proof (prune_wf _ _ _ Hwfs Hpr) as Hwfs'.
  pose proof (prune_f_live _ _ _ _ Hpr) as Hlx. pose proof Hwfs as [Hwf _].
  apply (In_get_leaves _ _ Hwfs) in Ha as (na & Hna & Hda & Hca).
  apply (In_get_leaves _ _ Hwfs'). exists na. split; auto.
  destruct Hwf as [Hno|(root & r & HR & Hnd & Hlive)]; [exfalso; eapply Hno; eauto|].
  assert (Har : In a (ids r)) by (apply Hlive; exists na; auto).
  destruct (Nat.eq_dec x root) as [->|Hne].
  - exfalso. destruct (RepLib.Rep_inv _ _ _ _ _ HR) as (n & cs & -> & Hn & _ & _ & _ & _ & HF & _).
    assert (n = nx) by congruence. subst n. rewrite Hchx in HF. inversion HF; subst.
    simpl in Har. destruct Har as [?|[]]. congruence.
  - destruct (prune_exact _ _ _ _ _ Hwfs HR (Hlive _ Hlx) Hne Hpr)
      as (P & sx & nP & nP' & Hedge & Hsx & _ & _ & _ & _ & _ & _ & Hfr & HnP & _).
    destruct (Rep_rsub _ _ _ _ _ _ _ HR Hsx) as (px & dx & HRx).
    destruct (RepLib.Rep_inv _ _ _ _ _ HRx) as (n & cs & -> & Hn & _ & _ & _ & _ & HF & _).
    assert (n = nx) by congruence. subst n. rewrite Hchx in HF. inversion HF; subst.
    destruct (redge_arena _ _ _ _ _ _ _ HR Hedge) as (nu & nv & Hgu & _ & _ & Hin).
    apply get_Ok in Hgu as [Hnu _].
    rewrite Hfr; auto.
    + simpl. intros [?|[]]. congruence.
    + intros ->. assert (nu = na) by congruence. subst nu. rewrite Hca in Hin. destruct Hin.
Qed.

(* ---- compress: nothing comes back to life ----------------------------------------------------------- *)
Lemma compress_node_live t t' id j :
  WFS t -> compress_node O t id = Ok t' -> live t' j -> live t j.
Proof.
  intros Hwfs H (m' & Hm' & Hd').
  destruct (compress_node_exact O t t' id Hwfs H)
    as (n & P & child & nP & nc & ne & nP' & dc & Hn & Hdn & Hpn & Hchn & HnP & HdP & Hnc & Hdc & Hpc &
        HidP & HcP & Hcid & HinP & HninP & _ & Hlen & Sid & Sc & SP & Hlab & HchP' & _ & _ & _ & So).
  destruct (Nat.eq_dec j id) as [->|H1]; [|destruct (Nat.eq_dec j P) as [->|H2];
                                            [|destruct (Nat.eq_dec j child) as [->|H3]]].
  - rewrite Sid in Hm'. injection Hm' as <-. discriminate.
  - exists nP; auto.
  - exists nc; auto.
  - assert (Hlt : j < length t) by (rewrite <- Hlen; eapply nth_error_Some_lt; eauto).
    destruct (nth_error t j) as [m|] eqn:Hm; [|apply nth_error_None in Hm; lia].
    destruct (So j m H1 H2 H3 Hm) as (d & Hd). rewrite Hd in Hm'. injection Hm' as <-.
    exists m. simpl in *. auto.
Qed.

Lemma compress_go_live : forall l t j, WFS t -> live (snd (compress_go O l t)) j -> live t j.
Proof.
  induction l as [|i l IH]; intros t j Hwfs Hj; simpl in *; auto.
  destruct (compress_node O t i) as [t1| | |] eqn:E; simpl in *; auto.
  eapply compress_node_live; eauto. eapply IH; eauto. eapply compress_node_wf; eauto.
Qed.

Lemma compress_live t j : WFS t -> live (snd (compress O t)) j -> live t j.
Proof. rewrite compress_unfold. apply compress_go_live. Qed.

(* ---- the loop over the names ---------------------------------------------------------------------- *)
(* the slots pruned by the loop, each one looked up by name in the arena of its turn *)
Fixpoint remove_ids (t : arena) (tips : list str) : list nat :=
  match tips with
  | [] => []
  | nm :: rest =>
      match get_by_name t nm with
      | Some n => nid n :: match prune t (nid n) with Ok t1 => remove_ids t1 rest | _ => [] end
      | None => []
      end
  end.

Lemma remove_fold_spec : forall tips t t1,
  Inv t -> foldM remove_step tips t = Ok t1 ->
  Inv t1 /\ length (remove_ids t tips) = length tips /\
  (forall i, live t1 i -> live t i /\ ~ In i (remove_ids t tips)) /\
  (forall a, In a (get_leaves t) -> ~ In a (remove_ids t tips) -> In a (get_leaves t1)) /\
  (forall a b, live t1 a -> live t1 b -> get_distance O t1 a b = get_distance O t a b).
Proof.
  induction tips as [|nm tips IH]; intros t t1 HI H.
  - simpl in H. injection H as <-. simpl. split; [auto|]. split; [auto|]. split; [|split]; auto.
  - cbn [foldM] in H. apply bind_Ok in H as (t2 & Hstep & H).
    unfold remove_step in Hstep. cbn [remove_ids].
    destruct (get_by_name t nm) as [n|] eqn:Eg; [|discriminate].
    destruct (is_tip n) eqn:Etip; [|discriminate]. rewrite Hstep.
    destruct (get_by_name_slot _ _ _ HI Eg) as (Hn & Hd & _).
    pose proof (Inv_WFS _ HI) as Hwfs.
    pose proof (prune_inv O _ _ _ HI Hstep) as HI2.
    destruct (IH t2 t1 HI2 H) as (HI1 & Hlen & Hlive & Hleaves & Hdist).
    assert (Hch : nchildren n = []) by (unfold is_tip in Etip; destruct (nchildren n); auto; discriminate).
    split; auto. split; [simpl; congruence|]. split; [|split].
    + intros i Hi. destruct (Hlive i Hi) as [Hi2 Hnin].
      destruct (prune_live _ _ _ Hwfs Hstep i Hi2) as [Hi0 Hne]. split; auto.
      simpl. intros [?|?]; auto.
    + intros a Ha Hnin. apply Hleaves.
      * eapply prune_tip_leaves; eauto. intros ->. apply Hnin. simpl; auto.
      * intros Hin. apply Hnin. simpl; auto.
    + intros a b Ha Hb. rewrite Hdist by auto.
      destruct (Hlive a Ha) as [Ha2 _]. destruct (Hlive b Hb) as [Hb2 _].
      eapply prune_dist; eauto.
Qed.

(* every pruned slot held, at its turn, a live tip carrying the requested name *)
Lemma remove_ids_named : forall tips t t1,
  Inv t -> foldM remove_step tips t = Ok t1 ->
  Forall2 (fun nm x => exists tk n, Inv tk /\ nth_error tk x = Some n /\ ndeleted n = false /\
                         nchildren n = [] /\ get_by_name tk nm = Some n /\
                         (forall i, live tk i -> live t i))
          tips (remove_ids t tips).
Proof.
  induction tips as [|nm tips IH]; intros t t1 HI H; [constructor|].
  cbn [foldM] in H. apply bind_Ok in H as (t2 & Hstep & H).
  unfold remove_step in Hstep. cbn [remove_ids].
  destruct (get_by_name t nm) as [n|] eqn:Eg; [|discriminate].
  destruct (is_tip n) eqn:Etip; [|discriminate]. rewrite Hstep.
  destruct (get_by_name_slot _ _ _ HI Eg) as (Hn & Hd & _).
  assert (Hch : nchildren n = []) by (unfold is_tip in Etip; destruct (nchildren n); auto; discriminate).
  constructor.
  - exists t, n. splits; auto.
  - pose proof (prune_inv O _ _ _ HI Hstep) as HI2.
    eapply Forall2_impl'; [|eapply IH; eauto]. simpl.
    intros nm' x (tk & n' & ? & ? & ? & ? & ? & Hl). exists tk, n'. splits; auto.
    intros i Hi. eapply prune_live; eauto. apply Inv_WFS; auto.
Qed.

(* ---- the loop never fails otherwise than by the two panics of the tool ------------------------------- *)
Lemma prune_live_ok t x : WFS t -> live t x -> exists t', prune t x = Ok t'.
Proof.
  intros [Hwf Hse] Hlx. unfold prune.
  destruct Hwf as [Hno|(root & r & HR & Hnd & Hlive)]; [exfalso; eapply Hno; eauto|].
  pose proof (Hlive _ Hlx) as Hxr.
  destruct (Nat.eq_dec x root) as [->|Hne].
  - destruct (prune_f_spec r (fuel_of t) t None 0 root HR Hnd
                (Rep0_height_fuel _ _ _ _ (Rep_Rep0 _ _ _ _ _ HR) Hnd) Hse I) as (t2 & -> & _). eauto.
  - destruct (Rep_parent _ _ _ _ _ _ HR Hxr Hne) as (P & nP & nx & HPr & HnP & HdP & Hnx & Hpx & HxP).
    destruct (rsub_in P r HPr) as (sP & HsP).
    destruct (Rep_rsub _ _ _ _ _ _ _ HR HsP) as (pp & dp & HRP).
    destruct (RepLib.Rep_inv _ _ _ _ _ HRP) as (n & cs & -> & Hn & _ & _ & _ & _ & HF & _).
    assert (n = nP) by congruence. subst n.
    pose proof (rsub_NoDup _ _ _ Hnd HsP) as HndP.
    destruct (Forall2_In_l _ _ _ _ HF HxP) as (sx & Hsx & HRx).
    rewrite ids_RT in HndP. apply NoDup_cons_iff in HndP as [HPn Hndcs].
    pose proof (NoDup_flat_map_in _ _ _ Hndcs Hsx) as Hndx.
    assert (HPx : ~ In P (ids sx)). { intros Hin. apply HPn. apply in_flat_map; eauto. }
    assert (Hpre : prune_pre t (Some P) x sx).
    { split; auto. exists nP. split; auto. apply get_Ok; auto. }
    destruct (prune_f_spec sx (fuel_of t) t (Some P) (S dp) x HRx Hndx
                (Rep0_height_fuel _ _ _ _ (Rep_Rep0 _ _ _ _ _ HRx) Hndx) Hse Hpre) as (t2 & -> & _).
    eauto.
Qed.

(* the loop over the names stops only at a name that is absent (Panic 40) or carried first by an internal
   node (Panic 41); it never reports an error and never runs out of fuel *)
Lemma remove_step_outcome t nm :
  Inv t ->
  match remove_step t nm with
  | Ok t1 => Inv t1
  | Panic s => s = 40 \/ s = 41
  | Err _ | OutOfFuel => False
  end.
Proof.
  intros HI. unfold remove_step.
  destruct (get_by_name t nm) as [n|] eqn:Eg; [|simpl; auto].
  destruct (is_tip n); [|simpl; auto].
  destruct (get_by_name_slot _ _ _ HI Eg) as (Hn & Hd & _).
  destruct (prune_live_ok t (nid n) (Inv_WFS _ HI)) as (t2 & Ht2); [exists n; auto|].
  rewrite Ht2. eapply prune_inv; eauto.
Qed.

Lemma remove_loop_outcome : forall tips t,
  Inv t ->
  match foldM remove_step tips t with
  | Ok t1 => Inv t1
  | Panic s => s = 40 \/ s = 41
  | Err _ | OutOfFuel => False
  end.
Proof.
  induction tips as [|nm tips IH]; intros t HI; [exact HI|].
  cbn [foldM]. pose proof (remove_step_outcome t nm HI) as Hs.
  destruct (remove_step t nm) as [t2|e|s|]; cbn [bind]; auto.
  apply IH; auto.
Qed.

(* the outcome of the whole command: the two panics above, or whatever the final compress returns on the
   pruned arena (which satisfies the invariant: NoPanic.compress_safe applies) *)
Theorem remove_outcome t tips :
  Inv t ->
  (exists s, cli_remove O t tips = Panic s /\ (s = 40 \/ s = 41)) \/
  (exists t1, foldM remove_step tips t = Ok t1 /\ Inv t1 /\ cli_remove O t tips = fst (compress O t1)).
Proof.
  intros HI. pose proof (remove_loop_outcome tips t HI) as H. rewrite cli_remove_unfold.
  destruct (foldM remove_step tips t) as [t1|e|s|]; try contradiction.
  - right. exists t1. cbn [bind]. rewrite compress_result_fst. auto.
  - left. exists s. auto.
Qed.

(* ---- the theorems ---------------------------------------------------------------------------------------- *)
Lemma cli_remove_inv_parts t tips t' :
  cli_remove O t tips = Ok t' ->
  exists t1, foldM remove_step tips t = Ok t1 /\ fst (compress O t1) = Ok t'.
Proof.
  rewrite cli_remove_unfold. intros H. apply bind_Ok in H as (t1 & H1 & H2).
  rewrite compress_result_fst in H2. eauto.
Qed.

(* 3a. the invariant of reachable arenas is preserved *)
Theorem remove_inv t tips t' : Inv t -> cli_remove O t tips = Ok t' -> Inv t'.
Proof.
  intros HI H. destruct (cli_remove_inv_parts _ _ _ H) as (t1 & H1 & H2).
  destruct (remove_fold_spec _ _ _ HI H1) as (HI1 & _).
  destruct (compress_post O t1 t' (Inv_WFS _ HI1) H2) as (<- & _). apply compress_inv; auto.
Qed.

(* 3b. no live non-root node of the result has exactly one child *)
Theorem remove_no_unary t tips t' :
  Inv t -> cli_remove O t tips = Ok t' ->
  forall j n, nth_error t' j = Some n -> ndeleted n = false -> nparent n <> None -> length (nchildren n) <> 1.
Proof.
  intros HI H j n Hn Hd Hp Hl. destruct (cli_remove_inv_parts _ _ _ H) as (t1 & H1 & H2).
  destruct (remove_fold_spec _ _ _ HI H1) as (HI1 & _).
  destruct (compress_post O t1 t' (Inv_WFS _ HI1) H2) as (_ & _ & Hun).
  apply (Hun j). exists n. auto.
Qed.

(* 3c. the named tips are gone, nothing else is lost among the leaves, nothing is created *)
Theorem remove_tips_gone t tips t' :
  Inv t -> cli_remove O t tips = Ok t' ->
  length (remove_ids t tips) = length tips /\
  (forall x, In x (remove_ids t tips) -> ~ live t' x) /\
  (forall a, live t' a -> live t a) /\
  (forall a, In a (get_leaves t') -> live t a /\ ~ In a (remove_ids t tips)) /\
  (forall a, In a (get_leaves t) -> ~ In a (remove_ids t tips) -> In a (get_leaves t')).
Proof.
  intros HI H. destruct (cli_remove_inv_parts _ _ _ H) as (t1 & H1 & H2).
  destruct (remove_fold_spec _ _ _ HI H1) as (HI1 & Hlen & Hlive & Hleaves & _).
  pose proof (Inv_WFS _ HI1) as Hwfs1.
  destruct (compress_post O t1 t' Hwfs1 H2) as (Hsnd & Hwfs' & _).
  assert (Hsub : forall a, live t' a -> live t a /\ ~ In a (remove_ids t tips)).
  { intros a Ha. apply Hlive. apply compress_live; auto. rewrite Hsnd. auto. }
  split; auto. split; [|split; [|split]].
  - intros x Hx Hl. destruct (Hsub x Hl). auto.
  - intros a Ha. apply Hsub; auto.
  - intros a Ha. apply Hsub. apply leaf_live; auto.
  - intros a Ha Hnin. rewrite <- Hsnd, (compress_leaves O t1 Hwfs1). auto.
Qed.

(* 3d. the length of the path between two surviving nodes (in particular between two remaining tips) is
   unchanged; only associativity of the addition is needed (for the merged branches) *)
Theorem remove_dist t tips t' a b :
  (forall x y z, ladd O x (ladd O y z) = ladd O (ladd O x y) z) ->
  Inv t -> cli_remove O t tips = Ok t' -> live t' a -> live t' b ->
  exists d k k', get_distance O t a b = Ok (d, k) /\ get_distance O t' a b = Ok (d, k').
Proof.
  intros Hassoc HI H Ha Hb. destruct (cli_remove_inv_parts _ _ _ H) as (t1 & H1 & H2).
  destruct (remove_fold_spec _ _ _ HI H1) as (HI1 & _ & Hlive & _ & Hdist).
  pose proof (Inv_WFS _ HI1) as Hwfs1.
  destruct (compress_post O t1 t' Hwfs1 H2) as (Hsnd & _ & _).
  rewrite <- Hsnd in Ha, Hb.
  destruct (compress_dist O Hassoc t1 a b Hwfs1 Ha Hb) as (d & k & k' & Hd1 & Hd').
  rewrite Hsnd in Hd'. rewrite Hdist in Hd1 by (apply compress_live; auto). eauto.
Qed.

Corollary remove_leaf_dist t tips t' a b :
  (forall x y z, ladd O x (ladd O y z) = ladd O (ladd O x y) z) ->
  Inv t -> cli_remove O t tips = Ok t' -> In a (get_leaves t') -> In b (get_leaves t') ->
  exists d k k', get_distance O t a b = Ok (d, k) /\ get_distance O t' a b = Ok (d, k').
Proof.
  intros Hassoc HI H Ha Hb. pose proof (Inv_WFS _ (remove_inv _ _ _ HI H)) as Hwfs'.
  eapply remove_dist; eauto using leaf_live.
Qed.

End Remove.

(* ================================================================================================ *)
(* 3. rescale                                                                                        *)
(* ================================================================================================ *)
Section RescaleCli.
Context {L : Type}.
Variable O : LenOps L.
Notation arena := (@arena L).
Notation node := (@node L).
Implicit Types (t : arena) (n : node).

Theorem rescale_cli t f : cli_rescale O t f = rescale O t f.
Proof. reflexivity. Qed.

Theorem rescale_cli_inv t f : Inv t -> Inv (cli_rescale O t f).
Proof. apply rescale_inv. Qed.

(* every length, on both records, is multiplied by the factor; nothing else changes *)
Theorem rescale_cli_exact t f :
  length (cli_rescale O t f) = length t /\
  (forall i, nth_error (cli_rescale O t f) i = option_map (rescale_node O f) (nth_error t i)) /\
  (forall n, let n' := rescale_node O f n in
     nid n' = nid n /\ nname n' = nname n /\ nparent n' = nparent n /\ nchildren n' = nchildren n /\
     ncomment n' = ncomment n /\ ndepth n' = ndepth n /\ ndeleted n' = ndeleted n /\
     npedge n' = option_map (fun e => lmul O e f) (npedge n) /\
     map fst (nedges n') = map fst (nedges n) /\
     map snd (nedges n') = map (fun e => lmul O e f) (map snd (nedges n)) /\
     (forall c, edge_get (nedges n') c = option_map (fun e => lmul O e f) (edge_get (nedges n) c))).
Proof. apply rescale_exact. Qed.

Theorem rescale_cli_tree t f root r :
  Rep t None 0 root r -> Rep (cli_rescale O t f) None 0 root r.
Proof. apply rescale_tree. Qed.

Theorem rescale_cli_leaves t f : get_leaves (cli_rescale O t f) = get_leaves t.
Proof. apply get_leaves_rescale. Qed.

(* every path length is multiplied by the factor, under the two laws relating the factor to the sum *)
Theorem rescale_cli_dist t f root r a b :
  lmul O (l0 O) f = l0 O ->
  (forall x y, lmul O (ladd O x y) f = ladd O (lmul O x f) (lmul O y f)) ->
  WFS t -> Rep t None 0 root r -> In a (ids r) -> In b (ids r) ->
  exists d k, get_distance O t a b = Ok (d, k) /\
              get_distance O (cli_rescale O t f) a b = Ok (option_map (fun e => lmul O e f) d, k).
Proof. intros H0 Hadd. apply rescale_dist; auto. Qed.

End RescaleCli.

(* ================================================================================================ *)
Print Assumptions collapse_ok.
Print Assumptions collapse_inv.
Print Assumptions collapse_exact.
Print Assumptions collapse_dist.
Print Assumptions remove_outcome.
Print Assumptions remove_inv.
Print Assumptions remove_no_unary.
Print Assumptions remove_tips_gone.
Print Assumptions remove_ids_named.
Print Assumptions prune_dist.
Print Assumptions remove_dist.
Print Assumptions remove_leaf_dist.
Print Assumptions rescale_cli_exact.
Print Assumptions rescale_cli_dist.
