(* Paths.v — root paths, common ancestors and distances (property C09).
   The arena parent walk [get_path_from_root] is the textbook root path [rpath] of the represented rose
   tree; [get_common_ancestor] is the deepest shared ancestor; [get_distance] counts the edges of the
   unique tree path and sums its branch lengths (absent as soon as one of them is absent). *)
From Coq Require Import List Arith Lia Bool.
From PT Require Import Arena Spec Queries RepLib.
From PT Require Traversals.
Import ListNotations.

Local Arguments ids : simpl never.

(* ================================================================================================ *)
(* 0. list helpers                                                                                   *)
(* ================================================================================================ *)

(* every two consecutive elements are related *)
Fixpoint linked {A} (R : A -> A -> Prop) (l : list A) : Prop :=
  match l with
  | x :: t => match t with
              | y :: _ => R x y /\ linked R t
              | [] => True
              end
  | [] => True
  end.

Lemma linked_cons2 {A} (R : A -> A -> Prop) x y l : linked R (x :: y :: l) <-> R x y /\ linked R (y :: l).
Proof. simpl. tauto. Qed.

Lemma linked_one {A} (R : A -> A -> Prop) x : linked R [x] <-> True.
Proof. simpl. tauto. Qed.

Lemma linked_mono {A} (R R' : A -> A -> Prop) l :
  (forall x y, R x y -> R' x y) -> linked R l -> linked R' l.
Proof.
  intros HR. induction l as [|x l IH]; [auto|].
  destruct l as [|y l]; [simpl; auto|]. rewrite !linked_cons2. intros [H1 H2]. split; auto.
Qed.

Lemma linked_app {A} (R : A -> A -> Prop) l1 x l2 :
  linked R (l1 ++ [x]) -> linked R (x :: l2) -> linked R (l1 ++ x :: l2).
Proof.
  induction l1 as [|a l1 IH]; [simpl; auto|].
  destruct l1 as [|b l1]; cbn [app] in *; rewrite !linked_cons2.
  - intros [H _] H2. split; auto.
  - intros [H H1] H2. split; auto.
Qed.

Lemma linked_app_l {A} (R : A -> A -> Prop) l1 l2 : linked R (l1 ++ l2) -> linked R l1.
Proof.
  induction l1 as [|a l1 IH]; [simpl; auto|].
  destruct l1 as [|b l1]; [simpl; auto|]. cbn [app] in *. rewrite !linked_cons2.
  intros [H H1]. split; auto.
Qed.

Lemma linked_tl {A} (R : A -> A -> Prop) x l : linked R (x :: l) -> linked R l.
Proof. destruct l; [simpl; auto|]. rewrite linked_cons2. tauto. Qed.

Lemma linked_app_r {A} (R : A -> A -> Prop) l1 l2 : linked R (l1 ++ l2) -> linked R l2.
Proof.
  induction l1 as [|a l1 IH]; [simpl; auto|]. cbn [app]. intros H. apply linked_tl in H. auto.
Qed.

Lemma linked_rev {A} (R : A -> A -> Prop) l : linked R l -> linked (fun x y => R y x) (rev l).
Proof.
  induction l as [|a l IH]; [simpl; auto|].
  destruct l as [|b l]; [simpl; auto|]. rewrite linked_cons2.
  intros [H H1]. specialize (IH H1). cbn [rev] in *.
  rewrite <- app_assoc. cbn [app]. apply linked_app; auto. simpl; auto.
Qed.

Lemma linked_split {A} (R : A -> A -> Prop) l1 u v l2 : linked R (l1 ++ u :: v :: l2) -> R u v.
Proof. intros H. apply linked_app_r in H. simpl in H. tauto. Qed.

(* length of the longest common prefix *)
Fixpoint cpl (a b : list nat) : nat :=
  match a, b with
  | x :: a', y :: b' => if Nat.eqb x y then S (cpl a' b') else 0
  | _, _ => 0
  end.

Lemma first_diff_cpl a : forall b k, first_diff a b k = k + cpl a b.
Proof.
  induction a as [|x a IH]; intros [|y b] k; simpl; try lia.
  destruct (Nat.eqb x y); [rewrite IH|]; lia.
Qed.

Lemma cpl_sym a : forall b, cpl a b = cpl b a.
Proof.
  induction a as [|x a IH]; intros [|y b]; simpl; auto.
  rewrite (Nat.eqb_sym y x). destruct (Nat.eqb x y); auto.
Qed.

Lemma cpl_le_l a : forall b, cpl a b <= length a.
Proof.
  induction a as [|x a IH]; intros [|y b]; simpl; try lia.
  destruct (Nat.eqb x y); [specialize (IH b)|]; lia.
Qed.

Lemma cpl_le_r a b : cpl a b <= length b.
Proof. rewrite cpl_sym. apply cpl_le_l. Qed.

Lemma cpl_firstn a : forall b, firstn (cpl a b) a = firstn (cpl a b) b.
Proof.
  induction a as [|x a IH]; intros [|y b]; simpl; auto.
  destruct (Nat.eqb_spec x y); simpl; auto. subst. f_equal; auto.
Qed.

Lemma cpl_app q : forall a b, cpl (q ++ a) (q ++ b) = length q + cpl a b.
Proof. induction q as [|x q IH]; intros; simpl; auto. rewrite Nat.eqb_refl, IH. auto. Qed.

Lemma cpl_refl a : cpl a a = length a.
Proof. induction a; simpl; auto. rewrite Nat.eqb_refl. auto. Qed.

(* the first elements after the common prefix differ *)
Lemma cpl_diverge a b x y :
  nth_error a (cpl a b) = Some x -> nth_error b (cpl a b) = Some y -> x <> y.
Proof.
  revert b. induction a as [|u a IH]; intros [|v b]; simpl; try discriminate.
  destruct (Nat.eqb_spec u v); simpl; eauto. congruence.
Qed.

Lemma app_last_inj {A} (l1 l2 : list A) x y : l1 ++ [x] = l2 ++ [y] -> l1 = l2 /\ x = y.
Proof. intros H. apply app_inj_tail in H. auto. Qed.

Lemma firstn_app_skipn_last {A} (l : list A) k c :
  nth_error l k = Some c -> firstn (S k) l = firstn k l ++ [c] /\ l = firstn k l ++ c :: skipn (S k) l.
Proof.
  revert k. induction l as [|x l IH]; intros [|k]; simpl; try discriminate.
  - intros [= ->]. auto.
  - intros H. destruct (IH _ H) as [H1 H2]. split; f_equal; auto.
Qed.

(* ================================================================================================ *)
(* 1. root paths of a rose tree                                                                      *)
(* ================================================================================================ *)
Fixpoint rpath_first (x : nat) (cs : list rtree) : option (list nat) :=
  match cs with
  | [] => None
  | c :: rest => match rpath x c with Some p => Some p | None => rpath_first x rest end
  end.

Lemma rpath_RT x i cs :
  rpath x (RT i cs) = if Nat.eqb i x then Some [i] else option_map (cons i) (rpath_first x cs).
Proof.
  simpl. destruct (Nat.eqb i x); auto.
  induction cs as [|c cs IH]; simpl; auto.
  destruct (rpath x c); simpl; auto.
Qed.

(* downward chains starting at the root *)
Inductive rchain : rtree -> list nat -> Prop :=
| rchain_one : forall i cs, rchain (RT i cs) [i]
| rchain_cons : forall i cs c q, In c cs -> rchain c q -> rchain (RT i cs) (i :: q).

(* u is the parent of v somewhere in r *)
Inductive redge : rtree -> nat -> nat -> Prop :=
| redge_here : forall i cs c, In c cs -> redge (RT i cs) i (rid c)
| redge_down : forall i cs c u v, In c cs -> redge c u v -> redge (RT i cs) u v.

Lemma rpath_first_Some x cs q : rpath_first x cs = Some q -> exists c, In c cs /\ rpath x c = Some q.
Proof.
  induction cs as [|c cs IH]; simpl; [discriminate|].
  destruct (rpath x c) eqn:E.
  - intros [= ->]. eauto.
  - intros H. destruct (IH H) as (c' & ? & ?). eauto.
Qed.

Lemma rpath_chain : forall r x q, rpath x r = Some q -> rchain r q /\ exists q', q = q' ++ [x].
Proof.
  induction r as [i cs IH] using rtree_ind'. intros x q. rewrite rpath_RT.
  destruct (Nat.eqb_spec i x) as [->|Hne].
  - intros [= <-]. split; [constructor|exists []; auto].
  - destruct (rpath_first x cs) as [qc|] eqn:E; simpl; [|discriminate]. intros [= <-].
    apply rpath_first_Some in E as (c & Hc & Hq). rewrite Forall_forall in IH.
    destruct (IH c Hc _ _ Hq) as (Hch & q' & ->). split.
    + econstructor; eauto.
    + exists (i :: q'). auto.
Qed.

Lemma rchain_hd r q : rchain r q -> exists q', q = rid r :: q'.
Proof. destruct 1; simpl; eauto. Qed.

Lemma rchain_incl r q : rchain r q -> incl q (ids r).
Proof.
  induction 1; intros z Hz; rewrite ids_RT.
  - destruct Hz as [<-|[]]. left; auto.
  - destruct Hz as [<-|Hz]; [left; auto|]. right. apply in_flat_map. eauto.
Qed.

Lemma rchain_length r q : rchain r q -> 1 <= length q <= rheight r.
Proof.
  induction 1; simpl; [lia|]. pose proof (rheight_child _ _ H). lia.
Qed.

Lemma rpath_In x r q : rpath x r = Some q -> In x (ids r).
Proof.
  intros H. apply rpath_chain in H as (Hc & q' & ->). eapply rchain_incl; eauto.
  apply in_or_app. right. left. auto.
Qed.

Lemma rpath_notin x r : ~ In x (ids r) -> rpath x r = None.
Proof. intros H. destruct (rpath x r) eqn:E; auto. exfalso. eapply H, rpath_In; eauto. Qed.

Lemma rpath_first_unique x cs c q :
  NoDup (flat_map ids cs) -> In c cs -> rpath x c = Some q -> rpath_first x cs = Some q.
Proof.
  induction cs as [|c0 cs IH]; simpl; [tauto|]. intros Hnd [->|Hc] Hq.
  - rewrite Hq. auto.
  - apply NoDup_app_iff in Hnd as (_ & Hnd & Hdis).
    rewrite rpath_notin; auto.
    intros Hin. eapply Hdis; eauto. apply in_flat_map. exists c. split; auto. eapply rpath_In; eauto.
Qed.

Lemma rchain_rpath : forall r q, rchain r q -> forall q' x, q = q' ++ [x] -> NoDup (ids r) ->
  rpath x r = Some (q' ++ [x]).
Proof.
  induction 1 as [i cs|i cs c q Hc Hch IH]; intros q' x E Hnd; rewrite rpath_RT.
  - destruct q' as [|a q']; simpl in E.
    + injection E as <-. rewrite Nat.eqb_refl. auto.
    + injection E as _ E. destruct q'; discriminate.
  - destruct q' as [|a q']; simpl in E.
    + injection E as _ ->. inversion Hch.
    + injection E as <- ->. rewrite ids_RT in Hnd. apply NoDup_cons_iff in Hnd as [Hi Hnd].
      assert (Hq : rpath x c = Some (q' ++ [x])).
      { apply IH; auto. eapply NoDup_flat_map_in; eauto. }
      destruct (Nat.eqb_spec i x) as [->|Hne].
      * exfalso. apply Hi. apply in_flat_map. exists c. split; auto. eapply rpath_In; eauto.
      * rewrite (rpath_first_unique _ _ _ _ Hnd Hc Hq). auto.
Qed.

Lemma rchain_prefix : forall q1 r z q2, rchain r (q1 ++ z :: q2) -> rchain r (q1 ++ [z]).
Proof.
  induction q1 as [|a q1 IH]; intros r z q2 H; simpl in *.
  - inversion H; subst; constructor.
  - inversion H; subst.
    + destruct q1; discriminate.
    + econstructor; eauto.
Qed.

Lemma rchain_NoDup r q : rchain r q -> NoDup (ids r) -> NoDup q.
Proof.
  induction 1 as [i cs|i cs c q Hc Hch IH]; intros Hnd.
  - constructor; [simpl; tauto|constructor].
  - rewrite ids_RT in Hnd. apply NoDup_cons_iff in Hnd as [Hi Hnd]. constructor.
    + intros Hin. apply Hi. apply in_flat_map. exists c. split; auto. eapply rchain_incl; eauto.
    + apply IH. eapply NoDup_flat_map_in; eauto.
Qed.

Lemma redge_mono i cs c u v : In c cs -> redge c u v -> redge (RT i cs) u v.
Proof. intros. econstructor; eauto. Qed.

Lemma rchain_linked r q : rchain r q -> linked (redge r) q.
Proof.
  induction 1 as [i cs|i cs c q Hc Hch IH]; [simpl; auto|].
  destruct (rchain_hd _ _ Hch) as (q' & ->). apply linked_cons2. split.
  - constructor; auto.
  - eapply linked_mono; [|exact IH]. intros. eapply redge_mono; eauto.
Qed.

Lemma redge_in r u v : redge r u v -> In u (ids r) /\ In v (ids r).
Proof.
  induction 1 as [i cs c Hc|i cs c u v Hc H [IH1 IH2]]; rewrite ids_RT.
  - split; [left; auto|]. right. apply in_flat_map. exists c. split; auto. apply In_rid_ids.
  - split; right; apply in_flat_map; eauto.
Qed.

(* ---- the facts of item 2 -------------------------------------------------------------------------- *)
Theorem rpath_total x r : In x (ids r) <-> exists q, rpath x r = Some q.
Proof.
  split; [|intros (q & H); eapply rpath_In; eauto].
  revert x. induction r as [i cs IH] using rtree_ind'. intros x Hin. rewrite rpath_RT.
  destruct (Nat.eqb_spec i x) as [->|Hne]; eauto.
  rewrite ids_RT in Hin. destruct Hin as [?|Hin]; [congruence|].
  assert (exists qc, rpath_first x cs = Some qc) as (qc & ->); [|simpl; eauto].
  induction IH as [|c cs Hc _ IHcs]; simpl in *; [tauto|].
  destruct (rpath x c) eqn:E; eauto.
  apply in_app_or in Hin as [Hin|Hin]; auto.
  destruct (Hc _ Hin). congruence.
Qed.

(* root first *)
Theorem rpath_head x r q : rpath x r = Some q -> exists q', q = rid r :: q'.
Proof. intros H. apply rpath_chain in H as [H _]. eapply rchain_hd; eauto. Qed.

(* node last *)
Theorem rpath_last x r q : rpath x r = Some q -> exists q', q = q' ++ [x].
Proof. intros H. apply rpath_chain in H as [_ H]. auto. Qed.

(* consecutive elements are parent and child *)
Theorem rpath_linked x r q : rpath x r = Some q -> linked (redge r) q.
Proof. intros H. apply rpath_chain in H as [H _]. apply rchain_linked; auto. Qed.

Theorem rpath_incl x r q : rpath x r = Some q -> incl q (ids r).
Proof. intros H. apply rpath_chain in H as [H _]. apply rchain_incl; auto. Qed.

Theorem rpath_length x r q : rpath x r = Some q -> 1 <= length q <= rheight r.
Proof. intros H. apply rpath_chain in H as [H _]. apply rchain_length; auto. Qed.

Theorem rpath_NoDup x r q : NoDup (ids r) -> rpath x r = Some q -> NoDup q.
Proof. intros Hnd H. apply rpath_chain in H as [H _]. eapply rchain_NoDup; eauto. Qed.

(* every prefix of a root path is the root path of its last element *)
Theorem rpath_prefix x r q1 z q2 :
  NoDup (ids r) -> rpath x r = Some (q1 ++ z :: q2) -> rpath z r = Some (q1 ++ [z]).
Proof.
  intros Hnd H. apply rpath_chain in H as [H _]. apply rchain_prefix in H.
  eapply rchain_rpath; eauto.
Qed.

(* with distinct ids, a root path is exactly a downward chain from the root ending in the node *)
Theorem rpath_iff_chain x r q :
  NoDup (ids r) -> (rpath x r = Some q <-> rchain r q /\ exists q', q = q' ++ [x]).
Proof.
  intros Hnd. split; [apply rpath_chain|]. intros (H & q' & ->). eapply rchain_rpath; eauto.
Qed.

Theorem rpath_root r : rpath (rid r) r = Some [rid r].
Proof. destruct r as [i cs]. rewrite rpath_RT. simpl. rewrite Nat.eqb_refl. auto. Qed.

(* z is an ancestor of x (or x itself) *)
Definition anc (r : rtree) (z x : nat) : Prop := exists q, rpath x r = Some q /\ In z q.

Lemma anc_refl r x : In x (ids r) -> anc r x x.
Proof.
  intros H. apply rpath_total in H as (q & H). exists q. split; auto.
  destruct (rpath_last _ _ _ H) as (q' & ->). apply in_or_app. right. left. auto.
Qed.

Lemma anc_root r x : In x (ids r) -> anc r (rid r) x.
Proof.
  intros H. apply rpath_total in H as (q & H). exists q. split; auto.
  destruct (rpath_head _ _ _ H) as (q' & ->). left. auto.
Qed.

Lemma anc_trans r x y z : NoDup (ids r) -> anc r x y -> anc r y z -> anc r x z.
Proof.
  intros Hnd (qy & Hy & Hx) (qz & Hz & Hyz). exists qz. split; auto.
  apply in_split in Hyz as (l1 & l2 & ->).
  pose proof (rpath_prefix _ _ _ _ _ Hnd Hz) as Hy'. rewrite Hy in Hy'. injection Hy' as ->.
  apply in_app_or in Hx as [Hx|[<-|[]]]; apply in_or_app; [left|right; left]; auto.
Qed.

Lemma anc_antisym r x y : NoDup (ids r) -> anc r x y -> anc r y x -> x = y.
Proof.
  intros Hnd (qy & Hy & Hx) (qx & Hqx & Hyx).
  apply in_split in Hx as (l1 & l2 & ->). apply in_split in Hyx as (m1 & m2 & ->).
  pose proof (rpath_prefix _ _ _ _ _ Hnd Hy) as E1. pose proof (rpath_prefix _ _ _ _ _ Hnd Hqx) as E2.
  rewrite E1 in Hqx. rewrite E2 in Hy. injection Hqx as Hqx. injection Hy as Hy.
  assert (Hl : length (l1 ++ [x]) = length (m1 ++ y :: m2)) by congruence.
  assert (Hm : length (m1 ++ [y]) = length (l1 ++ x :: l2)) by congruence.
  rewrite !app_length in Hl, Hm. simpl in Hl, Hm.
  destruct m2; [|simpl in *; lia]. apply app_last_inj in Hqx. tauto.
Qed.

(* ---- longest common prefix and the deepest common ancestor ----------------------------------------- *)
Fixpoint lcp (a b : list nat) : list nat :=
  match a, b with
  | x :: a', y :: b' => if Nat.eqb x y then x :: lcp a' b' else []
  | _, _ => []
  end.

Lemma lcp_split a : forall b,
  a = lcp a b ++ skipn (cpl a b) a /\ b = lcp a b ++ skipn (cpl a b) b /\ length (lcp a b) = cpl a b.
Proof.
  induction a as [|x a IH]; intros [|y b]; simpl; auto.
  destruct (Nat.eqb_spec x y) as [->|Hne]; simpl; auto.
  destruct (IH b) as (H1 & H2 & H3). repeat split; f_equal; auto.
Qed.

Lemma lcp_sym a : forall b, lcp a b = lcp b a.
Proof.
  induction a as [|x a IH]; intros [|y b]; simpl; auto.
  rewrite (Nat.eqb_sym y x). destruct (Nat.eqb_spec x y); auto. subst. f_equal; auto.
Qed.

Lemma lcp_refl a : lcp a a = a.
Proof. induction a; simpl; auto. rewrite Nat.eqb_refl. f_equal; auto. Qed.

Lemma lcp_app q : forall a b, lcp (q ++ a) (q ++ b) = q ++ lcp a b.
Proof. induction q as [|x q IH]; intros; simpl; auto. rewrite Nat.eqb_refl, IH. auto. Qed.

Lemma lcp_diverge a b x y ta tb :
  skipn (cpl a b) a = x :: ta -> skipn (cpl a b) b = y :: tb -> x <> y.
Proof.
  revert b. induction a as [|u a IH]; intros [|v b]; simpl; try discriminate.
  destruct (Nat.eqb_spec u v); simpl; eauto. congruence.
Qed.

(* the shape of two root paths: a shared root path pc ++ [c] followed by two disjoint tails *)
Lemma lca_spec r a b pa pb :
  NoDup (ids r) -> rpath a r = Some pa -> rpath b r = Some pb ->
  exists pc c,
    lcp pa pb = pc ++ [c] /\ rpath c r = Some (pc ++ [c]) /\
    pa = pc ++ c :: skipn (cpl pa pb) pa /\ pb = pc ++ c :: skipn (cpl pa pb) pb /\
    cpl pa pb = S (length pc) /\
    (forall z, In z pa -> In z pb -> In z (pc ++ [c])).
Proof.
  intros Hnd Ha Hb.
  destruct (lcp_split pa pb) as (Hsa & Hsb & Hlen).
  assert (Hne : lcp pa pb <> []).
  { destruct (rpath_head _ _ _ Ha) as (qa & ->). destruct (rpath_head _ _ _ Hb) as (qb & ->).
    simpl. rewrite Nat.eqb_refl. discriminate. }
  destruct (exists_last Hne) as (pc & c & Hl). exists pc, c.
  rewrite Hl in Hsa, Hsb, Hlen. rewrite <- app_assoc in Hsa, Hsb. simpl in Hsa, Hsb.
  rewrite app_length in Hlen. simpl in Hlen.
  repeat split; auto; try lia.
  - rewrite Hsa in Ha. eapply rpath_prefix; eauto.
  - intros z Hza Hzb.
    apply in_split in Hza as (u1 & u2 & Hu). apply in_split in Hzb as (v1 & v2 & Hv).
    pose proof Ha as Ha'. pose proof Hb as Hb'. rewrite Hu in Ha'. rewrite Hv in Hb'.
    apply rpath_prefix in Ha', Hb'; auto. rewrite Ha' in Hb'. injection Hb' as Huv.
    apply app_last_inj in Huv as [<- _].
    rewrite <- Hl, Hu, Hv.
    change (z :: u2) with ([z] ++ u2). change (z :: v2) with ([z] ++ v2).
    rewrite !app_assoc, lcp_app. apply in_or_app. left. apply in_or_app. right. left. auto.
Qed.

(* the two tails below the deepest common ancestor are disjoint *)
Lemma lca_tails_disjoint r a b pa pb z :
  NoDup (ids r) -> rpath a r = Some pa -> rpath b r = Some pb ->
  In z (skipn (cpl pa pb) pa) -> In z (skipn (cpl pa pb) pb) -> False.
Proof.
  intros Hnd Ha Hb Hza Hzb.
  destruct (lca_spec _ _ _ _ _ Hnd Ha Hb) as (pc & c & Hl & Hc & Hsa & Hsb & Hk & Hdeep).
  pose proof (rpath_NoDup _ _ _ Hnd Ha) as Hnda. rewrite Hsa in Hnda.
  change (c :: skipn (cpl pa pb) pa) with ([c] ++ skipn (cpl pa pb) pa) in Hnda.
  rewrite app_assoc in Hnda. apply NoDup_app_iff in Hnda as (_ & _ & Hdis).
  apply (Hdis z); auto. apply Hdeep.
  - rewrite Hsa. apply in_or_app. right. right. auto.
  - rewrite Hsb. apply in_or_app. right. right. auto.
Qed.

Definition radj (r : rtree) (u v : nat) : Prop := redge r u v \/ redge r v u.

(* the tree path from a to b: up from a to the deepest common ancestor, then down to b *)
Theorem tree_path_spec r a b pa pb :
  NoDup (ids r) -> rpath a r = Some pa -> rpath b r = Some pb ->
  let ta := skipn (cpl pa pb) pa in
  let tb := skipn (cpl pa pb) pb in
  exists c, nth_error pa (cpl pa pb - 1) = Some c /\
    let path := rev ta ++ c :: tb in
    (exists m, path = a :: m) /\ (exists m, path = m ++ [b]) /\
    NoDup path /\ linked (radj r) path /\ length path = S (length ta + length tb).
Proof.
  intros Hnd Ha Hb ta tb.
  destruct (lca_spec _ _ _ _ _ Hnd Ha Hb) as (pc & c & Hl & Hc & Hsa & Hsb & Hk & Hdeep).
  fold ta in Hsa. fold tb in Hsb. exists c.
  assert (Hdisj : forall z, In z ta -> In z tb -> False).
  { intros z. eapply lca_tails_disjoint; eauto. }
  rewrite Hk. clearbody ta tb. split.
  { simpl. rewrite Nat.sub_0_r. rewrite Hsa. rewrite nth_error_app2, Nat.sub_diag; auto. }
  cbv zeta.
  pose proof (rpath_NoDup _ _ _ Hnd Ha) as Hnda. pose proof (rpath_NoDup _ _ _ Hnd Hb) as Hndb.
  pose proof (rpath_linked _ _ _ Ha) as Hla. pose proof (rpath_linked _ _ _ Hb) as Hlb.
  rewrite Hsa in Hnda, Hla. rewrite Hsb in Hndb, Hlb.
  apply NoDup_app_iff in Hnda as (_ & Hnda & _). apply NoDup_app_iff in Hndb as (_ & Hndb & _).
  apply linked_app_r in Hla, Hlb.
  repeat split.
  - destruct (rpath_last _ _ _ Ha) as (qa & Hqa).
    assert (E : c :: ta = skipn (length pc) pa).
    { rewrite Hsa. rewrite skipn_app, Nat.sub_diag, skipn_all. auto. }
    assert (exists m, c :: ta = m ++ [a]) as (m & Em).
    { rewrite E, Hqa. destruct (le_lt_dec (length pc) (length qa)).
      - rewrite skipn_app. replace (length pc - length qa) with 0 by lia. simpl. eauto.
      - exfalso. assert (length pa = length (qa ++ [a])) by congruence.
        rewrite Hsa in H. rewrite !app_length in H. simpl in H. lia. }
    change (rev ta ++ c :: tb) with (rev ta ++ [c] ++ tb). rewrite app_assoc.
    change (rev ta ++ [c]) with (rev (c :: ta)). rewrite Em, rev_app_distr. simpl. eauto.
  - destruct (rpath_last _ _ _ Hb) as (qb & Hqb).
    assert (E : c :: tb = skipn (length pc) pb).
    { rewrite Hsb. rewrite skipn_app, Nat.sub_diag, skipn_all. auto. }
    assert (exists m, c :: tb = m ++ [b]) as (m & Em).
    { rewrite E, Hqb. destruct (le_lt_dec (length pc) (length qb)).
      - rewrite skipn_app. replace (length pc - length qb) with 0 by lia. simpl. eauto.
      - exfalso. assert (length pb = length (qb ++ [b])) by congruence.
        rewrite Hsb in H. rewrite !app_length in H. simpl in H. lia. }
    rewrite Em. exists (rev ta ++ m). rewrite app_assoc. auto.
  - apply NoDup_app_iff. repeat split; auto.
    + apply NoDup_rev. apply NoDup_cons_iff in Hnda. tauto.
    + intros z Hz1 Hz2. apply in_rev in Hz1. destruct Hz2 as [<-|Hz2].
      * apply NoDup_cons_iff in Hnda. tauto.
      * eauto.
  - apply linked_app.
    + change (rev ta ++ [c]) with (rev (c :: ta)).
      eapply linked_mono; [|apply linked_rev; exact Hla]. unfold radj. simpl. auto.
    + eapply linked_mono; [|exact Hlb]. unfold radj. auto.
  - rewrite app_length, rev_length. simpl. lia.
Qed.

(* ================================================================================================ *)
(* 2. the arena parent walk                                                                          *)
(* ================================================================================================ *)
Section Paths.
Context {L : Type}.
Notation arena := (@arena L).
Notation node := (@node L).
Implicit Types (t : arena) (n : node).

(* walking up from a node x of the subtree r (rooted at i, whose parent field is p): after |q| steps,
   q the path from i down to x, the walk has left the subtree through p, or stopped if p = None *)
Definition up_spec t (x : nat) (r : rtree) : Prop :=
  forall p d i, Rep t p d i r -> In x (ids r) ->
    exists q, rpath x r = Some q /\
      forall fuel acc, length q <= fuel ->
        path_up_f fuel t x acc =
        match p with
        | None => Ok (q ++ acc)
        | Some pp => path_up_f (fuel - length q) t pp (q ++ acc)
        end.

Lemma path_up_sub t x : forall r, up_spec t x r.
Proof.
  induction r as [i0 cs IH] using rtree_ind'. intros p d i HR Hin.
  destruct (Rep_inv _ _ _ _ _ HR) as (n & cs' & Heq & Hn & Hdel & Hid & Hp & Hd & HF & _).
  injection Heq as -> ->. rewrite rpath_RT.
  assert (Hget : get t i = Ok n) by (apply get_Ok; auto).
  destruct (Nat.eqb_spec i x) as [->|Hne].
  - exists [x]. split; auto. intros fuel acc Hf. destruct fuel as [|f]; [simpl in Hf; lia|].
    simpl. rewrite Hget. simpl. rewrite Hp. destruct p; auto. rewrite Nat.sub_0_r. auto.
  - rewrite ids_RT in Hin. destruct Hin as [?|Hin]; [congruence|].
    assert (exists qc, rpath_first x cs' = Some qc /\
              forall fuel acc, length qc <= fuel ->
                path_up_f fuel t x acc = path_up_f (fuel - length qc) t i (qc ++ acc))
      as (qc & -> & Hup).
    { clear Hn Hget Hp Hd Hid Hdel HR. induction HF as [|c rc l cs HRc HF IHF]; simpl in *; [tauto|].
      inversion IH as [|? ? IHc IHcs]; subst.
      destruct (in_dec Nat.eq_dec x (ids rc)) as [Hx|Hx].
      - destruct (IHc _ _ _ HRc Hx) as (q & -> & Hq). exists q. split; auto.
      - rewrite rpath_notin by auto. apply IHF; auto.
        apply in_app_or in Hin as [?|?]; tauto. }
    exists (i :: qc). split; auto. intros fuel acc Hf. simpl in Hf.
    rewrite Hup by lia. destruct (fuel - length qc) as [|f] eqn:Ef; [lia|].
    cbn [path_up_f]. rewrite Hget. cbn [bind]. rewrite Hp. cbn [app length].
    destruct p; auto. f_equal. lia.
Qed.

(* item 1 *)
Theorem path_refines t root r x :
  Rep t None 0 root r -> NoDup (ids r) -> In x (ids r) ->
  exists p, get_path_from_root t x = Ok p /\ rpath x r = Some p.
Proof.
  intros HR Hnd Hin. destruct (path_up_sub t x r _ _ _ HR Hin) as (q & Hq & Hup).
  exists q. split; auto. unfold get_path_from_root. rewrite Hup, app_nil_r; auto.
  pose proof (rpath_length _ _ _ Hq). pose proof (Traversals.rheight_le_length _ _ _ _ _ HR Hnd).
  unfold fuel_of. lia.
Qed.

(* the parent field of a non-root node of the tree names its predecessor on the root path *)
Lemma redge_arena t : forall r p d i u v,
  Rep t p d i r -> redge r u v ->
  exists nu nv, get t u = Ok nu /\ get t v = Ok nv /\ nparent nv = Some u /\ In v (nchildren nu).
Proof.
  induction r as [i0 cs IH] using rtree_ind'. intros p d i u v HR He.
  destruct (Rep_inv _ _ _ _ _ HR) as (n & cs' & Heq & Hn & Hdel & Hid & Hp & Hd & HF & _).
  injection Heq as -> ->. rewrite Forall_forall in IH.
  inversion He as [? ? c Hc|? ? c ? ? Hc He']; subst.
  - destruct (Forall2_In_r _ _ _ _ HF Hc) as (kc & Hkc & HRc).
    pose proof (Rep_rid _ _ _ _ _ HRc) as ->.
    destruct (Rep_inv _ _ _ _ _ HRc) as (nc & ? & _ & Hnc & Hdc & _ & Hpc & _).
    exists n, nc. repeat split; auto; apply get_Ok; auto.
  - destruct (Forall2_In_r _ _ _ _ HF Hc) as (kc & Hkc & HRc). eapply IH; eauto.
Qed.

(* item 5 *)
Theorem path_dead t x :
  (forall n, nth_error t x = Some n -> ndeleted n = true) -> get_path_from_root t x = Err NodeNotFound.
Proof.
  intros H. unfold get_path_from_root, fuel_of. simpl. unfold get.
  destruct (nth_error t x) as [n|]; auto. rewrite (H n); auto.
Qed.

(* ================================================================================================ *)
(* 3. common ancestor                                                                                *)
(* ================================================================================================ *)
Lemma lca_detail t root r a b :
  Rep t None 0 root r -> NoDup (ids r) -> In a (ids r) -> In b (ids r) ->
  exists pa pb pc c,
    rpath a r = Some pa /\ rpath b r = Some pb /\
    get_path_from_root t a = Ok pa /\ get_path_from_root t b = Ok pb /\
    lcp pa pb = pc ++ [c] /\ rpath c r = Some (pc ++ [c]) /\
    get_common_ancestor t a b = Ok c.
Proof.
  intros HR Hnd Hina Hinb.
  destruct (path_refines _ _ _ _ HR Hnd Hina) as (pa & Hga & Ha).
  destruct (path_refines _ _ _ _ HR Hnd Hinb) as (pb & Hgb & Hb).
  destruct (lca_spec _ _ _ _ _ Hnd Ha Hb) as (pc & c & Hl & Hc & Hsa & Hsb & Hk & Hdeep).
  exists pa, pb, pc, c. repeat split; auto.
  unfold get_common_ancestor. destruct (Nat.eqb_spec a b) as [->|Hne].
  - rewrite Ha in Hb. injection Hb as <-. rewrite lcp_refl in Hl.
    destruct (rpath_last _ _ _ Ha) as (q & Hq). rewrite Hq in Hl. apply app_last_inj in Hl as [_ ->]. auto.
  - rewrite Hga, Hgb. cbn [bind]. rewrite first_diff_cpl, Hk. cbn [plus].
    rewrite Hsa at 1. rewrite nth_error_app2, Nat.sub_diag; auto.
Qed.

(* item 3: the reported node is a common ancestor, and every common ancestor is one of its ancestors *)
Theorem lca_refines t root r a b :
  Rep t None 0 root r -> NoDup (ids r) -> In a (ids r) -> In b (ids r) ->
  exists c, get_common_ancestor t a b = Ok c /\
    anc r c a /\ anc r c b /\ (forall z, anc r z a -> anc r z b -> anc r z c).
Proof.
  intros HR Hnd Hina Hinb.
  destruct (lca_detail _ _ _ _ _ HR Hnd Hina Hinb) as (pa & pb & pc & c & Ha & Hb & _ & _ & Hl & Hc & Hg).
  destruct (lca_spec _ _ _ _ _ Hnd Ha Hb) as (pc' & c' & Hl' & _ & Hsa & Hsb & _ & Hdeep).
  rewrite Hl in Hl'. apply app_last_inj in Hl' as [<- <-].
  exists c. split; auto. repeat split.
  - exists pa. split; auto. rewrite Hsa. apply in_or_app. right. left. auto.
  - exists pb. split; auto. rewrite Hsb. apply in_or_app. right. left. auto.
  - intros z (qa & Hqa & Hza) (qb & Hqb & Hzb). rewrite Ha in Hqa. rewrite Hb in Hqb.
    injection Hqa as <-. injection Hqb as <-. exists (pc ++ [c]). split; auto.
Qed.

(* the root path of the reported node is the longest common prefix of the two root paths *)
Theorem lca_is_lcp t root r a b pa pb :
  Rep t None 0 root r -> NoDup (ids r) -> rpath a r = Some pa -> rpath b r = Some pb ->
  exists c, get_common_ancestor t a b = Ok c /\ rpath c r = Some (lcp pa pb).
Proof.
  intros HR Hnd Ha Hb.
  destruct (lca_detail t root r a b HR Hnd) as (pa' & pb' & pc & c & Ha' & Hb' & _ & _ & Hl & Hc & Hg);
    try (eapply rpath_In; eauto).
  rewrite Ha in Ha'. rewrite Hb in Hb'. injection Ha' as <-. injection Hb' as <-.
  exists c. rewrite Hl. auto.
Qed.

Theorem lca_sym t root r a b :
  Rep t None 0 root r -> NoDup (ids r) -> In a (ids r) -> In b (ids r) ->
  get_common_ancestor t a b = get_common_ancestor t b a.
Proof.
  intros HR Hnd Hina Hinb.
  destruct (lca_detail _ _ _ _ _ HR Hnd Hina Hinb) as (pa & pb & pc & c & Ha & Hb & _ & _ & Hl & _ & ->).
  destruct (lca_detail _ _ _ _ _ HR Hnd Hinb Hina) as (pb' & pa' & pc' & c' & Hb' & Ha' & _ & _ & Hl' & _ & ->).
  rewrite Ha in Ha'. rewrite Hb in Hb'. injection Ha' as <-. injection Hb' as <-.
  rewrite lcp_sym, Hl in Hl'. apply app_last_inj in Hl' as [_ ->]. auto.
Qed.

Theorem lca_self t a : get_common_ancestor t a a = Ok a.
Proof. unfold get_common_ancestor. rewrite Nat.eqb_refl. auto. Qed.

(* an ancestor of b is the common ancestor of itself and b *)
Theorem lca_anc t root r a b :
  Rep t None 0 root r -> NoDup (ids r) -> anc r a b -> get_common_ancestor t a b = Ok a.
Proof.
  intros HR Hnd Hanc.
  assert (Hinb : In b (ids r)) by (destruct Hanc as (q & Hq & _); eapply rpath_In; eauto).
  assert (Hina : In a (ids r)) by (destruct Hanc as (q & Hq & Hin); eapply rpath_incl; eauto).
  destruct (lca_refines _ _ _ _ _ HR Hnd Hina Hinb) as (c & -> & Hca & Hcb & Hdeep).
  f_equal. apply (anc_antisym r); auto. apply Hdeep; auto. apply anc_refl; auto.
Qed.

(* ================================================================================================ *)
(* 4. distance                                                                                       *)
(* ================================================================================================ *)
Variable O : LenOps L.

(* the branch length above node x, as recorded in the arena *)
Definition edge_of t (x : nat) : option L :=
  match nth_error t x with Some n => npedge n | None => None end.

Definition present (es : list (option L)) : list L :=
  flat_map (fun o => match o with Some e => [e] | None => [] end) es.
Definition all_present (es : list (option L)) : bool :=
  forallb (fun o => match o with Some _ => true | None => false end) es.

(* total length of a list of branches: the left-to-right sum starting from 0.0 when every branch has
   a length, absent otherwise *)
Definition path_len (es : list (option L)) : option L :=
  if all_present es then Some (fold_left (ladd O) (present es) (l0 O)) else None.

Lemma dist_fold t l :
  (forall x, In x l -> live t x) ->
  forall dist all br,
  foldM (fun (st : L * bool * nat) id =>
           let '(dist, all, br) := st in
           n <- get t id ;;
           match npedge n with
           | Some e => Ok (ladd O dist e, all, S br)
           | None => Ok (dist, false, S br)
           end) l (dist, all, br)
  = Ok (fold_left (ladd O) (present (map (edge_of t) l)) dist,
        all && all_present (map (edge_of t) l), br + length l).
Proof.
  induction l as [|x l IH]; intros Hl dist all br.
  - simpl. rewrite andb_true_r, Nat.add_0_r. auto.
  - assert (Hx : live t x) by (apply Hl; left; auto).
    apply get_live in Hx as (n & Hg). pose proof Hg as Hg'. apply get_Ok in Hg' as [Hn _].
    cbn [foldM]. rewrite Hg. cbn [bind map]. unfold edge_of at 1 3. rewrite Hn.
    destruct (npedge n) as [e|]; cbn [bind]; rewrite IH by (intros; apply Hl; right; auto).
    + simpl. f_equal. f_equal. lia.
    + simpl. rewrite andb_false_r. f_equal. f_equal. lia.
Qed.

(* item 4 *)
Theorem dist_refines t root r a b :
  Rep t None 0 root r -> NoDup (ids r) -> In a (ids r) -> In b (ids r) ->
  exists pa pb, rpath a r = Some pa /\ rpath b r = Some pb /\
    let ta := skipn (cpl pa pb) pa in
    let tb := skipn (cpl pa pb) pb in
    get_distance O t a b = Ok (path_len (map (edge_of t) (ta ++ tb)), length ta + length tb).
Proof.
  intros HR Hnd Hina Hinb.
  destruct (path_refines _ _ _ _ HR Hnd Hina) as (pa & Hga & Ha).
  destruct (path_refines _ _ _ _ HR Hnd Hinb) as (pb & Hgb & Hb).
  exists pa, pb. repeat split; auto. cbv zeta.
  unfold get_distance. destruct (Nat.eqb_spec a b) as [->|Hne].
  - rewrite Ha in Hb. injection Hb as <-. rewrite cpl_refl, skipn_all. reflexivity.
  - rewrite Hga, Hgb. cbn [bind]. rewrite first_diff_cpl. cbn [plus].
    rewrite dist_fold.
    + cbn [bind]. rewrite app_length. reflexivity.
    + intros x Hx. eapply Rep_ids_live; eauto.
      destruct (lcp_split pa pb) as (Hsa & Hsb & _).
      apply in_app_or in Hx as [Hx|Hx].
      * apply (rpath_incl _ _ _ Ha). rewrite Hsa. apply in_or_app. auto.
      * apply (rpath_incl _ _ _ Hb). rewrite Hsb. apply in_or_app. auto.
Qed.

Theorem dist_self t a : get_distance O t a a = Ok (Some (l0 O), 0).
Proof. unfold get_distance. rewrite Nat.eqb_refl. auto. Qed.

(* the edge count is symmetric, and so is the presence of a length, without any law on [ladd] *)
Theorem dist_sym_count t root r a b :
  Rep t None 0 root r -> NoDup (ids r) -> In a (ids r) -> In b (ids r) ->
  exists lab lba cnt,
    get_distance O t a b = Ok (lab, cnt) /\ get_distance O t b a = Ok (lba, cnt) /\
    (lab = None <-> lba = None).
Proof.
  intros HR Hnd Hina Hinb.
  destruct (dist_refines _ _ _ _ _ HR Hnd Hina Hinb) as (pa & pb & Ha & Hb & Hab).
  destruct (dist_refines _ _ _ _ _ HR Hnd Hinb Hina) as (pb' & pa' & Hb' & Ha' & Hba).
  rewrite Ha in Ha'. rewrite Hb in Hb'. injection Ha' as <-. injection Hb' as <-.
  cbv zeta in *. rewrite (cpl_sym pb pa) in Hba.
  do 3 eexists. split; [exact Hab|]. split; [rewrite Hba; f_equal; f_equal; lia|].
  unfold path_len, all_present. rewrite !map_app, !forallb_app, andb_comm.
  destruct (_ && _); split; auto; discriminate.
Qed.

Section Monoid.
Hypothesis ladd_assoc : forall x y z, ladd O x (ladd O y z) = ladd O (ladd O x y) z.
Hypothesis ladd_comm : forall x y, ladd O x y = ladd O y x.
Hypothesis ladd_0_l : forall x, ladd O (l0 O) x = x.

Lemma fold_ladd_shift (l : list L) : forall a,
  fold_left (ladd O) l a = ladd O a (fold_left (ladd O) l (l0 O)).
Proof.
  induction l as [|x l IH]; intros a; simpl.
  - rewrite ladd_comm, ladd_0_l. auto.
  - rewrite IH. rewrite (IH (ladd O (l0 O) x)). rewrite ladd_0_l, ladd_assoc. auto.
Qed.

Lemma fold_ladd_app_comm (l1 l2 : list L) :
  fold_left (ladd O) (l1 ++ l2) (l0 O) = fold_left (ladd O) (l2 ++ l1) (l0 O).
Proof.
  rewrite !fold_left_app. rewrite (fold_ladd_shift l2), (fold_ladd_shift l1 (fold_left _ l2 _)).
  apply ladd_comm.
Qed.

Lemma path_len_app_comm (e1 e2 : list (option L)) : path_len (e1 ++ e2) = path_len (e2 ++ e1).
Proof.
  unfold path_len, all_present, present. rewrite !forallb_app, !flat_map_app, andb_comm.
  rewrite fold_ladd_app_comm. auto.
Qed.

Theorem dist_sym t root r a b :
  Rep t None 0 root r -> NoDup (ids r) -> In a (ids r) -> In b (ids r) ->
  get_distance O t a b = get_distance O t b a.
Proof.
  intros HR Hnd Hina Hinb.
  destruct (dist_refines _ _ _ _ _ HR Hnd Hina Hinb) as (pa & pb & Ha & Hb & ->).
  destruct (dist_refines _ _ _ _ _ HR Hnd Hinb Hina) as (pb' & pa' & Hb' & Ha' & ->).
  rewrite Ha in Ha'. rewrite Hb in Hb'. injection Ha' as <-. injection Hb' as <-.
  rewrite (cpl_sym pb pa), !map_app, path_len_app_comm. f_equal. f_equal. lia.
Qed.

End Monoid.

End Paths.

(* ================================================================================================ *)
(* 5. the tree path is the only simple path                                                          *)
(* ================================================================================================ *)
Lemma redge_chain r u v : redge r u v -> exists q, rchain r (q ++ [u; v]).
Proof.
  induction 1 as [i cs c Hc|i cs c u v Hc H (q & IH)].
  - exists []. simpl. econstructor; eauto. destruct c; simpl. constructor.
  - exists (i :: q). simpl. econstructor; eauto.
Qed.

(* the root path of a child is the root path of its parent followed by the child *)
Lemma redge_rpath r u v :
  NoDup (ids r) -> redge r u v ->
  exists q, rpath u r = Some (q ++ [u]) /\ rpath v r = Some (q ++ [u; v]).
Proof.
  intros Hnd H. destruct (redge_chain _ _ _ H) as (q & Hq). exists q.
  assert (Hv : rpath v r = Some (q ++ [u; v])).
  { replace (q ++ [u; v]) with ((q ++ [u]) ++ [v]) in * by (rewrite <- app_assoc; auto).
    eapply rchain_rpath; eauto. }
  split; auto. eapply rpath_prefix; eauto.
Qed.

Lemma rpath_redge r q u v : rpath v r = Some (q ++ [u; v]) -> redge r u v.
Proof. intros H. apply rpath_linked in H. eapply linked_split; eauto. Qed.

Lemma redge_parent_unique r u u' v : NoDup (ids r) -> redge r u v -> redge r u' v -> u = u'.
Proof.
  intros Hnd H H'. destruct (redge_rpath _ _ _ Hnd H) as (q & _ & Hq).
  destruct (redge_rpath _ _ _ Hnd H') as (q' & _ & Hq'). rewrite Hq in Hq'. injection Hq' as E.
  change [u; v] with ([u] ++ [v]) in E. change [u'; v] with ([u'] ++ [v]) in E.
  rewrite !app_assoc in E. apply app_last_inj in E as [E _]. apply app_last_inj in E. tauto.
Qed.

Lemma redge_neq r u v : NoDup (ids r) -> redge r u v -> u <> v.
Proof.
  intros Hnd H. destruct (redge_rpath _ _ _ Hnd H) as (q & _ & Hq).
  apply rpath_NoDup in Hq; auto. apply NoDup_app_iff in Hq as (_ & Hq & _).
  apply NoDup_cons_iff in Hq as [Hq _]. simpl in Hq. intros ->. tauto.
Qed.

Lemma down_chain_rpath r x : forall U w qw,
  NoDup (ids r) -> rpath w r = Some qw -> linked (redge r) (w :: U ++ [x]) ->
  rpath x r = Some (qw ++ U ++ [x]).
Proof.
  induction U as [|u U IH]; intros w qw Hnd Hw Hl.
  - simpl in Hl. destruct Hl as [He _]. destruct (redge_rpath _ _ _ Hnd He) as (q & Hq & Hx).
    rewrite Hw in Hq. injection Hq as ->. rewrite Hx. simpl. rewrite <- app_assoc. auto.
  - cbn [app] in Hl. apply linked_cons2 in Hl as [He Hl].
    destruct (redge_rpath _ _ _ Hnd He) as (q & Hq & Hu).
    rewrite Hw in Hq. injection Hq as ->.
    rewrite (IH u ((q ++ [w]) ++ [u])); auto.
    + rewrite <- !app_assoc. auto.
    + rewrite Hu. rewrite <- app_assoc. auto.
Qed.

Lemma chain_end r w X qw e :
  NoDup (ids r) -> rpath w r = Some qw -> linked (redge r) (w :: X) ->
  (exists m, w :: X = m ++ [e]) -> rpath e r = Some (qw ++ X).
Proof.
  intros Hnd Hw Hl (m & Hm). destruct X as [|x0 X0] using rev_ind.
  - change [w] with ([] ++ [w]) in Hm. apply app_last_inj in Hm as [_ <-]. rewrite app_nil_r. auto.
  - clear IHX0. rewrite app_comm_cons in Hm. apply app_last_inj in Hm as [_ <-].
    eapply down_chain_rpath; eauto.
Qed.

Lemma chain_top_in r w X e :
  linked (redge r) (w :: X) -> (exists m, w :: X = m ++ [e]) -> In e (ids r) -> In w (ids r).
Proof.
  intros Hl (m & Hm) He. destruct X as [|x X].
  - change [w] with ([] ++ [w]) in Hm. apply app_last_inj in Hm as [_ <-]. auto.
  - apply linked_cons2 in Hl as [Hl _]. apply redge_in in Hl. tauto.
Qed.

Lemma cpl_disjoint U D : (forall z, In z U -> In z D -> False) -> cpl U D = 0.
Proof.
  destruct U as [|u U], D as [|d D]; simpl; auto. intros H.
  destruct (Nat.eqb_spec u d) as [->|]; auto. exfalso. apply (H d); auto.
Qed.

(* a simple path climbs, then descends *)
Lemma simple_path_shape r : forall P,
  NoDup (ids r) -> NoDup P -> linked (radj r) P -> P <> [] ->
  exists Ur w D, P = Ur ++ w :: D /\
    linked (fun x y => redge r y x) (Ur ++ [w]) /\ linked (redge r) (w :: D).
Proof.
  induction P as [|x P IH]; intros Hnd HndP Hl Hne; [congruence|]. clear Hne.
  destruct P as [|y P'].
  - exists [], x, []. simpl. auto.
  - apply linked_cons2 in Hl as [Hxy Hl]. apply NoDup_cons_iff in HndP as [Hx HndP].
    destruct (IH Hnd HndP Hl) as (Ur & w & D & HP & Hup & Hdown); [discriminate|].
    destruct Ur as [|y' Ur0]; simpl in HP.
    + injection HP as -> ->. destruct Hxy as [Hxy|Hyx].
      * exists [], x, (w :: D). repeat split; simpl; auto.
      * exists [x], w, D. repeat split; simpl; auto.
    + injection HP as <- ->. destruct Hxy as [Hxy|Hyx].
      * exfalso. cbn [app] in Hup.
        destruct Ur0 as [|y2 Ur0]; cbn [app] in Hup; apply linked_cons2 in Hup as [Hup _].
        -- pose proof (redge_parent_unique _ _ _ _ Hnd Hxy Hup). subst. apply Hx. right. left. auto.
        -- pose proof (redge_parent_unique _ _ _ _ Hnd Hxy Hup). subst. apply Hx. right. left. auto.
      * exists (x :: y :: Ur0), w, D. repeat split; auto.
Qed.

(* the path of [tree_path_spec] is the only duplicate-free walk from a to b along tree edges *)
Theorem tree_path_unique r a b pa pb P c :
  NoDup (ids r) -> rpath a r = Some pa -> rpath b r = Some pb ->
  NoDup P -> linked (radj r) P -> (exists m, P = a :: m) -> (exists m, P = m ++ [b]) ->
  nth_error pa (cpl pa pb - 1) = Some c ->
  P = rev (skipn (cpl pa pb) pa) ++ c :: skipn (cpl pa pb) pb.
Proof.
  intros Hnd Ha Hb HndP Hl (ma & Hma) (mb & Hmb) Hc.
  destruct (simple_path_shape r P Hnd HndP Hl) as (Ur & w & D & HP & Hup & Hdown);
    [rewrite Hma; discriminate|].
  apply linked_rev in Hup. rewrite rev_app_distr in Hup. simpl in Hup.
  assert (Htopa : exists m, w :: rev Ur = m ++ [a]).
  { exists (rev (tl (Ur ++ [w]))).
    assert (E : Ur ++ [w] = a :: tl (Ur ++ [w])).
    { rewrite Hma in HP. destruct Ur; simpl in *; injection HP as -> _; auto. }
    apply (f_equal (@rev nat)) in E. rewrite rev_app_distr in E. simpl in E. auto. }
  assert (Htopb : exists m, w :: D = m ++ [b]).
  { rewrite Hmb in HP. clear - HP. revert mb HP. induction Ur as [|u Ur IH]; intros mb HP; simpl in *; eauto.
    destruct mb as [|m0 mb]; simpl in HP.
    - injection HP as _ HP. destruct Ur; discriminate.
    - injection HP as _ HP. eauto. }
  assert (Hw : In w (ids r)).
  { eapply (chain_top_in r w D b); eauto. eapply rpath_In; eauto. }
  apply rpath_total in Hw as (qw & Hw).
  pose proof (chain_end _ _ _ _ _ Hnd Hw Hup Htopa) as Ha'.
  pose proof (chain_end _ _ _ _ _ Hnd Hw Hdown Htopb) as Hb'.
  rewrite Ha in Ha'. rewrite Hb in Hb'. injection Ha' as ->. injection Hb' as ->.
  assert (Hdis : forall z, In z (rev Ur) -> In z D -> False).
  { rewrite HP in HndP. apply NoDup_app_iff in HndP as (_ & _ & Hd).
    intros z Hz1 Hz2. apply in_rev in Hz1. apply (Hd z); auto. right. auto. }
  rewrite cpl_app, (cpl_disjoint _ _ Hdis), Nat.add_0_r in *.
  rewrite !skipn_app, !skipn_all, !Nat.sub_diag. simpl. rewrite rev_involutive.
  destruct (rpath_last _ _ _ Hw) as (q' & ->).
  rewrite app_length in Hc. simpl in Hc. rewrite Nat.add_sub in Hc.
  rewrite <- !app_assoc in Hc. rewrite nth_error_app2, Nat.sub_diag in Hc by auto. simpl in Hc.
  injection Hc as <-. auto.
Qed.

(* ================================================================================================ *)
(* 6. further arena-level corollaries                                                                *)
(* ================================================================================================ *)
Section PathsExtra.
Context {L : Type}.
Notation arena := (@arena L).
Notation node := (@node L).
Implicit Types (t : arena) (n : node).
Variable O : LenOps L.

(* the parent field of a node of the tree names a node of the tree, and the root path of the node is
   the root path of that parent followed by the node *)
Theorem parent_rpath t root r x n q :
  Rep t None 0 root r -> NoDup (ids r) -> In x (ids r) -> get t x = Ok n -> nparent n = Some q ->
  In q (ids r) /\ exists pq, rpath q r = Some pq /\ rpath x r = Some (pq ++ [x]).
Proof.
  intros HR Hnd Hin Hg Hp. apply rpath_total in Hin as (px & Hx).
  destruct (rpath_last _ _ _ Hx) as (px' & ->).
  destruct px' as [|u px'' _] using rev_ind.
  - exfalso. destruct (rpath_head _ _ _ Hx) as (? & E). simpl in E. injection E as -> _.
    rewrite (Rep_rid _ _ _ _ _ HR) in *.
    destruct (Rep_inv _ _ _ _ _ HR) as (n' & ? & _ & Hn' & _ & _ & Hp' & _).
    apply get_Ok in Hg as [Hn _]. congruence.
  - rewrite <- app_assoc in Hx. simpl in Hx. pose proof (rpath_redge _ _ _ _ Hx) as He.
    destruct (redge_arena _ _ _ _ _ _ _ HR He) as (nu & nv & _ & Hgv & Hpv & _).
    rewrite Hg in Hgv. injection Hgv as <-. rewrite Hp in Hpv. injection Hpv as ->.
    split; [apply (redge_in _ _ _ He)|]. exists (px'' ++ [u]). split.
    + eapply rpath_prefix; eauto.
    + rewrite <- app_assoc. auto.
Qed.

Theorem root_path t root r :
  Rep t None 0 root r -> NoDup (ids r) -> get_path_from_root t root = Ok [root].
Proof.
  intros HR Hnd. pose proof (Rep_rid _ _ _ _ _ HR) as E.
  destruct (path_refines t root r root HR Hnd) as (p & -> & Hp).
  - rewrite <- E. apply In_rid_ids.
  - rewrite <- E, rpath_root in Hp. congruence.
Qed.

(* the cached depth of a node is the number of edges of its root path *)
Lemma rpath_depth t x : forall r p d i q,
  Rep t p d i r -> rpath x r = Some q ->
  exists n, get t x = Ok n /\ ndepth n + 1 = d + length q.
Proof.
  induction r as [i0 cs IH] using rtree_ind'. intros p d i q HR.
  destruct (Rep_inv _ _ _ _ _ HR) as (n & cs' & Heq & Hn & Hdel & Hid & Hp & Hd & HF & _).
  injection Heq as -> ->. rewrite rpath_RT. destruct (Nat.eqb_spec i x) as [->|Hne].
  - intros [= <-]. exists n. split; [apply get_Ok; auto|]. simpl. lia.
  - destruct (rpath_first x cs') as [qc|] eqn:E; simpl; [|discriminate]. intros [= <-].
    apply rpath_first_Some in E as (c & Hc & Hq).
    destruct (Forall2_In_r _ _ _ _ HF Hc) as (kc & _ & HRc). rewrite Forall_forall in IH.
    destruct (IH c Hc _ _ _ _ HRc Hq) as (nx & Hg & Hdx). exists nx. split; auto. simpl. lia.
Qed.

Theorem path_length_depth t root r x p n :
  Rep t None 0 root r -> NoDup (ids r) -> get_path_from_root t x = Ok p -> In x (ids r) ->
  get t x = Ok n -> length p = S (ndepth n).
Proof.
  intros HR Hnd Hp Hin Hg. destruct (path_refines _ _ _ _ HR Hnd Hin) as (p' & Hp' & Hx).
  rewrite Hp in Hp'. injection Hp' as <-.
  destruct (rpath_depth _ _ _ _ _ _ _ HR Hx) as (n' & Hg' & Hd). rewrite Hg in Hg'. injection Hg' as <-. lia.
Qed.

(* characterisation of the reported length *)
Lemma path_len_None (es : list (option L)) : path_len O es = None <-> In None es.
Proof.
  unfold path_len, all_present. destruct (forallb _ es) eqn:E.
  - split; [discriminate|]. intros Hin. rewrite forallb_forall in E. specialize (E _ Hin). discriminate.
  - split; auto. intros _. induction es as [|[e|] es IH]; simpl in *; auto; discriminate.
Qed.

Lemma path_len_Some (es : list (option L)) :
  ~ In None es -> path_len O es = Some (fold_left (ladd O) (present es) (l0 O)).
Proof.
  intros H. unfold path_len. destruct (all_present es) eqn:E; auto.
  exfalso. apply H. apply path_len_None. unfold path_len. rewrite E. auto.
Qed.

Lemma path_len_all_present (ls : list L) :
  path_len O (map Some ls) = Some (fold_left (ladd O) ls (l0 O)).
Proof.
  rewrite path_len_Some.
  - f_equal. f_equal. unfold present. induction ls; simpl; auto. f_equal; auto.
  - intros H. apply in_map_iff in H as (? & ? & _). discriminate.
Qed.

(* dead or out-of-range arguments *)
Definition dead t (x : nat) : Prop := forall n, nth_error t x = Some n -> ndeleted n = true.

Theorem lca_dead_l t a b : a <> b -> dead t a -> get_common_ancestor t a b = Err NodeNotFound.
Proof.
  intros Hne Hd. unfold get_common_ancestor. apply Nat.eqb_neq in Hne. rewrite Hne.
  rewrite path_dead; auto.
Qed.

Theorem lca_dead_r t root r a b :
  Rep t None 0 root r -> NoDup (ids r) -> In a (ids r) -> a <> b -> dead t b ->
  get_common_ancestor t a b = Err NodeNotFound.
Proof.
  intros HR Hnd Hin Hne Hd. unfold get_common_ancestor. apply Nat.eqb_neq in Hne. rewrite Hne.
  destruct (path_refines _ _ _ _ HR Hnd Hin) as (p & -> & _). cbn [bind]. rewrite path_dead; auto.
Qed.

Theorem dist_dead_l t a b : a <> b -> dead t a -> get_distance O t a b = Err NodeNotFound.
Proof.
  intros Hne Hd. unfold get_distance. apply Nat.eqb_neq in Hne. rewrite Hne.
  rewrite path_dead; auto.
Qed.

Theorem dist_dead_r t root r a b :
  Rep t None 0 root r -> NoDup (ids r) -> In a (ids r) -> a <> b -> dead t b ->
  get_distance O t a b = Err NodeNotFound.
Proof.
  intros HR Hnd Hin Hne Hd. unfold get_distance. apply Nat.eqb_neq in Hne. rewrite Hne.
  destruct (path_refines _ _ _ _ HR Hnd Hin) as (p & -> & _). cbn [bind]. rewrite path_dead; auto.
Qed.

(* the number of reported edges is the number of edges of the tree path of [tree_path_spec] *)
Theorem dist_count_is_tree_path t root r a b lab cnt :
  Rep t None 0 root r -> NoDup (ids r) -> In a (ids r) -> In b (ids r) ->
  get_distance O t a b = Ok (lab, cnt) ->
  exists c path, get_common_ancestor t a b = Ok c /\ In c path /\
    (exists m, path = a :: m) /\ (exists m, path = m ++ [b]) /\
    NoDup path /\ linked (radj r) path /\ length path = S cnt /\
    (forall P, NoDup P -> linked (radj r) P -> (exists m, P = a :: m) -> (exists m, P = m ++ [b]) ->
               P = path).
Proof.
  intros HR Hnd Hina Hinb Hg.
  destruct (dist_refines O _ _ _ _ _ HR Hnd Hina Hinb) as (pa & pb & Ha & Hb & Hd).
  cbv zeta in Hd. rewrite Hg in Hd. injection Hd as _ ->.
  destruct (tree_path_spec _ _ _ _ _ Hnd Ha Hb) as (c & Hc & H1 & H2 & H3 & H4 & H5).
  exists c, (rev (skipn (cpl pa pb) pa) ++ c :: skipn (cpl pa pb) pb). repeat split; auto.
  - destruct (lca_detail _ _ _ _ _ HR Hnd Hina Hinb) as (pa' & pb' & pc & c' & Ha' & Hb' & _ & _ & Hl & _ & ->).
    rewrite Ha in Ha'. rewrite Hb in Hb'. injection Ha' as <-. injection Hb' as <-.
    destruct (lca_spec _ _ _ _ _ Hnd Ha Hb) as (pc2 & c2 & Hl2 & _ & Hsa & _ & Hk & _).
    rewrite Hl in Hl2. apply app_last_inj in Hl2 as [<- <-].
    rewrite Hk in Hc. simpl in Hc. rewrite Nat.sub_0_r in Hc. rewrite Hsa in Hc at 1.
    rewrite nth_error_app2, Nat.sub_diag in Hc by auto. simpl in Hc. congruence.
  - apply in_or_app. right. left. auto.
  - intros P HP1 HP2 HP3 HP4. eapply tree_path_unique; eauto.
Qed.

End PathsExtra.

(* ================================================================================================ *)
Print Assumptions path_refines.
Print Assumptions rpath_prefix.
Print Assumptions lca_refines.
Print Assumptions lca_sym.
Print Assumptions dist_refines.
Print Assumptions dist_sym.
Print Assumptions dist_sym_count.
Print Assumptions dist_self.
Print Assumptions path_dead.
Print Assumptions tree_path_spec.
Print Assumptions tree_path_unique.
Print Assumptions dist_count_is_tree_path.
