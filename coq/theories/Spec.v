(* Spec.v — L0: rose trees and textbook definitions (no arena, no caches), and the bridge
   Rep / WF between arenas (Arena.v) and rose trees.  Definitions only; lemmas live in lemmas/. *)
From PT Require Export Arena.

(* ---- rose trees over node ids ----------------------------------------------------------------- *)
Inductive rtree := RT (id : nat) (ch : list rtree).

Definition rid (r : rtree) : nat := match r with RT i _ => i end.
Definition rch (r : rtree) : list rtree := match r with RT _ cs => cs end.

Fixpoint rsize (r : rtree) : nat :=
  match r with RT _ cs => S (fold_right (fun c acc => rsize c + acc) 0 cs) end.

(* textbook traversals *)
Fixpoint pre (r : rtree) : list nat :=
  match r with RT i cs => i :: flat_map pre cs end.
Fixpoint post (r : rtree) : list nat :=
  match r with RT i cs => flat_map post cs ++ [i] end.
Definition ids := pre.

(* level order, defined by levels of a forest: roots of the forest, then the forest of all children.
   [fuel] bounds the number of levels (height); rheight r suffices. *)
Fixpoint rheight (r : rtree) : nat :=
  match r with RT _ cs => S (fold_right (fun c acc => Nat.max (rheight c) acc) 0 cs) end.
Fixpoint level_forest (fuel : nat) (fs : list rtree) : list nat :=
  match fuel with
  | 0 => []
  | S f => match fs with
           | [] => []
           | _ => map rid fs ++ level_forest f (flat_map rch fs)
           end
  end.
Definition level (r : rtree) : list nat := level_forest (rheight r) [r].

(* in-order for trees of arity <= 2 *)
Fixpoint ino (r : rtree) : list nat :=
  match r with
  | RT i [] => [i]
  | RT i [a] => ino a ++ [i]
  | RT i [a; b] => ino a ++ [i] ++ ino b
  | RT i _ => []
  end.
Fixpoint max_arity (r : rtree) : nat :=
  match r with RT _ cs => fold_right (fun c acc => Nat.max (max_arity c) acc) (length cs) cs end.

Fixpoint rleaves (r : rtree) : list nat :=
  match r with
  | RT i [] => [i]
  | RT _ cs => flat_map rleaves cs
  end.

(* root path of node x in r (root first, x last), if x occurs in r *)
Fixpoint rpath (x : nat) (r : rtree) : option (list nat) :=
  match r with
  | RT i cs =>
      if Nat.eqb i x then Some [i]
      else (fix first (cs : list rtree) : option (list nat) :=
              match cs with
              | [] => None
              | c :: rest => match rpath x c with
                             | Some p => Some (i :: p)
                             | None => first rest
                             end
              end) cs
  end.

(* subtree rooted at x *)
Fixpoint rsub (x : nat) (r : rtree) : option rtree :=
  match r with
  | RT i cs =>
      if Nat.eqb i x then Some r
      else (fix first (cs : list rtree) : option rtree :=
              match cs with
              | [] => None
              | c :: rest => match rsub x c with
                             | Some s => Some s
                             | None => first rest
                             end
              end) cs
  end.

(* ---- the bridge -------------------------------------------------------------------------------- *)
Section Bridge.
Context {L : Type}.
Notation arena := (@arena L).
Notation node := (@node L).

(* Rep t p d i r : slot i of arena t is live, carries id i, names p as its parent, has cached depth d,
   its child list represents (in order) the subtrees of r, every child's branch length is mirrored in
   this node's child-side record, and no length is kept for a non-child. *)
Inductive Rep (t : arena) : option nat -> nat -> nat -> rtree -> Prop :=
| Rep_node : forall p d i n cs,
    nth_error t i = Some n ->
    ndeleted n = false ->
    nid n = i ->
    nparent n = p ->
    ndepth n = d ->
    Forall2 (fun c r => Rep t (Some i) (S d) c r) (nchildren n) cs ->
    (forall c nc, In c (nchildren n) -> nth_error t c = Some nc -> edge_get (nedges n) c = npedge nc) ->
    (forall c, edge_get (nedges n) c <> None -> In c (nchildren n)) ->
    Rep t p d i (RT i cs).

Definition live (t : arena) (i : nat) : Prop :=
  exists n, nth_error t i = Some n /\ ndeleted n = false.

(* "the live nodes form exactly one rooted tree" (or there is no live node at all) *)
Definition WF (t : arena) : Prop :=
  (forall i, ~ live t i) \/
  exists root r, Rep t None 0 root r /\ NoDup (ids r) /\ (forall i, live t i -> In i (ids r)).

(* the same without the cached-depth and length-mirror clauses is what traversals need; they are
   stated directly on Rep *)
End Bridge.
