(* Extract.v — extraction of the executable model. Directives: those of ExtrOcamlBasic only. *)
From Coq Require Import Extraction ExtrOcamlBasic.
From PT Require Import Script.
Extraction "model.ml" run_case fmt_of_nat.
