(* Matrix.v — model of DistanceMatrix (src/distance.rs): triangular storage, Phylip codec, UPGMA.
   MODEL FILE: definitions only. *)
From PT Require Export Newick.

(* ---- triangular indexing (pure nat / N arithmetic) ----------------------------------------------- *)
(* rowvec_to_tril_index with the exact integer square root in place of the f64 pipeline
   (their agreement below 2^50 is the subject of C13's float lemmas) *)
Definition tril_inv (k : nat) : nat * nat :=
  let p := (N.to_nat (N.sqrt (1 + 8 * N.of_nat k)) - 1) / 2 in
  (p + 1, k - p * (p + 1) / 2).

Section MatrixDefs.
Context {L : Type}.
Variable O : LenOps L.
Notation dmat := (@dmat L).

Definition dm_new (taxa : list str) (cells : list L) : dmat := mkDmat (length taxa) taxa cells.
(* fix F9: size * (size - 1) no longer underflows for size 0 *)
Definition dm_with_size (size : nat) : dmat := mkDmat size [] (repeat (l0 O) (size * (size - 1) / 2)).

Definition dm_set_taxa (m : dmat) (taxa : list str) : outcome dmat :=
  if Nat.eqb (length taxa) (msize m) then Ok (mkDmat (msize m) taxa (mcells m)) else Err SizeError.

Definition taxa_index (m : dmat) (x : str) : outcome nat :=
  match find_str x (mtaxa m) with Some i => Ok i | None => Err MissingTaxon end.

Definition tril_to_vec_index (m : dmat) (i j : nat) : outcome nat :=
  if Nat.eqb i j || Nat.leb (msize m) i || Nat.leb (msize m) j then Err IndexError
  else Ok (tril_idx i j).

Definition pair_index (m : dmat) (a b : str) : outcome nat :=
  if str_eqb a b then Err IndexError else
  i <- taxa_index m a ;; j <- taxa_index m b ;; tril_to_vec_index m i j.

Definition dm_get (m : dmat) (a b : str) : outcome L :=
  if str_eqb a b then Ok (l0 O) else
  idx <- pair_index m a b ;;
  match nth_error (mcells m) idx with Some v => Ok v | None => Panic 30 end.

Definition dm_set (m : dmat) (a b : str) (v : L) : outcome dmat :=
  if str_eqb a b then (if leqb O v (l0 O) then Ok m else Err NonZeroIdenticalDistance) else
  idx <- pair_index m a b ;;
  if Nat.ltb idx (length (mcells m)) then Ok (mkDmat (msize m) (mtaxa m) (replace_at (mcells m) idx v))
  else Panic 31.

(* fix F8: to_map reads every ordered pair through `get` (identical taxa map to zero) *)
Definition dm_to_map (m : dmat) : outcome (list (str * str * L)) :=
  mapM (fun p : str * str => v <- dm_get m (fst p) (snd p) ;; Ok (fst p, snd p, v))
       (list_prod (mtaxa m) (mtaxa m)).

Definition dm_indexed (m : dmat) : list (nat * nat * L) :=
  map (fun kv : nat * L => (tril_inv (fst kv), snd kv)) (combine (seq 0 (length (mcells m))) (mcells m)).

Definition dm_min (m : dmat) : option (nat * nat * L) :=
  fold_left (fun acc (e : nat * nat * L) =>
               match acc with
               | None => Some e
               | Some (_, av) => if lltb O (snd e) av then Some e else acc
               end) (dm_indexed m) None.
Definition dm_max (m : dmat) : option (nat * nat * L) :=
  fold_left (fun acc (e : nat * nat * L) =>
               match acc with
               | None => Some e
               | Some (_, av) => if lltb O av (snd e) then Some e else acc
               end) (dm_indexed m) None.

(* ---- Phylip writer ---------------------------------------------------------------------------------- *)
Definition rstr := (@rstr L).
Fixpoint join_r (sep : rstr) (l : list rstr) : rstr :=
  match l with
  | [] => []
  | [x] => x
  | x :: t => x ++ sep ++ join_r sep t
  end.

Fixpoint dec_digits (fuel : nat) (n : N) (acc : str) : str :=
  match fuel with
  | 0 => acc
  | S f => let acc' := (48 + n mod 10)%N :: acc in
           if (n / 10 =? 0)%N then acc' else dec_digits f (n / 10)%N acc'
  end.
Definition dec_of_nat (n : nat) : str := dec_digits (S n) (N.of_nat n) [].

Definition sp : rch := @C L 32%N.
Definition nl : rch := @C L 10%N.

Definition to_phylip (m : dmat) (square : bool) : outcome rstr :=
  rows <- mapM (fun (p : nat * str) =>
            let i := fst p in
            let lim := if square then msize m else i in
            cells <- mapM (fun j =>
                       if Nat.eqb i j then Ok [Lv (l0 O)] else
                       match tril_to_vec_index m i j with
                       | Ok idx => match nth_error (mcells m) idx with
                                   | Some v => Ok [Lv v]
                                   | None => Panic 32 end
                       | _ => Panic 33
                       end) (seq 0 lim) ;;
            let row_s := join_r [sp; sp] cells in
            Ok (lit (snd p) ++ match row_s with [] => [] | _ => [sp; sp; sp; sp] ++ row_s end))
          (combine (seq 0 (length (mtaxa m))) (mtaxa m)) ;;
  Ok (lit (dec_of_nat (msize m)) ++ [nl] ++ join_r [nl] rows ++ [nl]).

(* ---- Phylip readers ----------------------------------------------------------------------------------- *)
Variable parse_cell : str -> option L.     (* str::parse::<T>() *)

(* str::lines(): split at '\n', a '\r' immediately before it is dropped; no empty last line *)
Fixpoint lines_aux (s : str) (cur : str) : list str :=
  match s with
  | [] => match cur with [] => [] | _ => [rev cur] end
  | c :: r =>
      if (c =? 10)%N then
        (match cur with
         | x :: cur' => if (x =? 13)%N then rev cur' else rev cur
         | [] => []
         end) :: lines_aux r []
      else lines_aux r (c :: cur)
  end.
Definition lines (s : str) : list str := lines_aux s [].

Fixpoint split_ws_aux (s : str) (cur : str) : list str :=
  match s with
  | [] => match cur with [] => [] | _ => [rev cur] end
  | c :: r =>
      if is_ws c then (match cur with [] => split_ws_aux r [] | _ => rev cur :: split_ws_aux r [] end)
      else split_ws_aux r (c :: cur)
  end.
Definition split_ws (s : str) : list str := split_ws_aux s [].

(* usize::from_str: optional '+', at least one ASCII digit, no overflow past 2^64-1 *)
Fixpoint digits_val (s : str) (acc : N) : option N :=
  match s with
  | [] => Some acc
  | c :: r => if ((48 <=? c) && (c <=? 57))%N then digits_val r (acc * 10 + (c - 48))%N else None
  end.
Definition parse_usize (s : str) : option nat :=
  let body := match s with c :: r => if (c =? 43)%N then r else s | [] => [] end in
  match body with
  | [] => None
  | _ => match digits_val body 0%N with
         | Some v => if (v <? 18446744073709551616)%N then Some (N.to_nat v) else None
         | None => None
         end
  end.

(* take(k) over a lazily parsed iterator: only the first k fields are parsed at all *)
Fixpoint parse_cells (fs : list str) (k : option nat) : outcome (list L) :=
  match fs, k with
  | [], _ => Ok []
  | _, Some 0 => Ok []
  | f :: r, _ =>
      match parse_cell f with
      | None => Err DistParseError
      | Some v => rest <- parse_cells r (option_map pred k) ;; Ok (v :: rest)
      end
  end.

(* fix F9: the strict reader no longer truncates long rows (k = None) *)
Definition read_phylip_row (row : str) (row_num : nat) (tril : bool) : outcome (str * list L) :=
  match split_ws row with
  | [] => Err EmptyRow
  | name :: fs => ds <- parse_cells fs (if tril then Some row_num else None) ;; Ok (name, ds)
  end.

Definition from_phylip_tril (text : str) : outcome dmat :=
  match lines text with
  | [] => Err EmptyMatrixFile
  | first :: rest =>
      match parse_usize first with
      | None => Err SizeParseError
      | Some size =>
          '(taxa, cells) <- foldM (fun (st : list str * list L) (p : nat * str) =>
                 '(name, ds) <- read_phylip_row (snd p) (fst p) true ;;
                 if negb (Nat.eqb (length ds) (fst p)) then Err PMissingDistance else
                 Ok (fst st ++ [name], snd st ++ ds))
               (combine (seq 0 (length rest)) rest) ([], []) ;;
          if negb (Nat.eqb (length taxa) size) then Err SizeAndRowsMismatch else
          (* from_precomputed: length check *)
          let n := length taxa in
          if negb (Nat.eqb (length cells) (n * (n - 1) / 2)) then Err PMatrixError else
          Ok (mkDmat n taxa cells)
      end
  end.

Definition mem_pair (a b : str) (l : list (str * str)) : bool :=
  existsb (fun p : str * str => str_eqb a (fst p) && str_eqb b (snd p)) l.

Definition lift_m {A} (o : outcome A) : outcome A :=
  match o with Err _ => Err PMatrixError | x => x end.

Definition from_phylip_strict (text : str) (square : bool) : outcome dmat :=
  match lines text with
  | [] => Err EmptyMatrixFile
  | first :: rest =>
      match parse_usize first with
      | None => Err SizeParseError
      | Some size =>
          '(names, rows) <- foldM (fun (st : list str * list (list L)) (p : nat * str) =>
                 let i := fst p in
                 '(name, ds) <- read_phylip_row (snd p) i false ;;
                 if (square && negb (Nat.eqb (length ds) size)) || (negb square && negb (Nat.eqb (length ds) i))
                 then Err PMissingDistance else
                 (* fix F9: a row beyond the declared size is a row-count mismatch, not an index panic *)
                 if square && Nat.leb size i then Err SizeAndRowsMismatch else
                 if square && negb (leqb O (nth i ds (l0 O)) (l0 O)) then Err NonZeroDiagonalValue else
                 Ok (fst st ++ [name], snd st ++ [ds]))
               (combine (seq 0 (length rest)) rest) ([], []) ;;
          if negb (Nat.eqb (length names) size) then Err SizeAndRowsMismatch else
          m0 <- lift_m (dm_set_taxa (dm_with_size size) names) ;;
          '(m, _) <- foldM (fun (st : dmat * list (str * str)) (p : str * list L) =>
                 let n1 := fst p in
                 foldM (fun (st : dmat * list (str * str)) (q : str * L) =>
                          let '(m, seen) := st in
                          let n2 := fst q in
                          if mem_pair n2 n1 seen then
                            known <- lift_m (dm_get m n1 n2) ;;
                            if negb (leqb O known (snd q)) then Err NonSymmetric else Ok (m, seen)
                          else
                            m' <- lift_m (dm_set m n1 n2 (snd q)) ;;
                            Ok (m', (n1, n2) :: seen))
                       (combine names (snd p)) st)
               (combine names rows) (m0, []) ;;
          Ok m
      end
  end.

(* ---- UPGMA ------------------------------------------------------------------------------------------ *)
Notation arena := (@arena L).

Definition cell (m : list L) (i j : nat) : L := nth (tril_idx i j) m (l0 O).

Fixpoint upgma_loop (fuel : nat) (n : nat) (cells : list L) (card : list nat) (merged : list bool)
         (heights : list L) (node_ids : list nat) (t : arena) (n_clusters : nat)
  : outcome (list L * list bool * list L * list nat * arena) :=
  if Nat.leb n_clusters 2 then Ok (cells, merged, heights, node_ids, t) else
  match fuel with
  | 0 => OutOfFuel
  | S f =>
      match dm_min (mkDmat n [] cells) with
      | None => Err IndexError
      | Some (a, b, d_ab) =>
          let two := ladd O (l1 O) (l1 O) in
          let nh := ldiv O d_ab two in
          let ha := nth a heights (l0 O) in
          let hb := nth b heights (l0 O) in
          let d_au := lsub O nh ha in
          let d_bu := lsub O nh hb in
          let merged' := replace_nth b true merged in
          let heights' := replace_nth a (ladd O ha d_au) heights in
          match merge_children t (nth a node_ids 0) (nth b node_ids 0) (Some d_au) (Some d_bu) None None with
          | (Ok (t', u_node), _) =>
              let c_a := lofnat O (nth a card 0) in
              let c_b := lofnat O (nth b card 0) in
              let cells' :=
                fold_left (fun (cs : list L) (x : nat) =>
                             if nth x merged' true then cs else
                             let cs1 := if negb (Nat.eqb x a) && negb (Nat.eqb b x)
                                        then let d_ax := cell cs x a in
                                             let d_bx := cell cs x b in
                                             replace_at cs (tril_idx a x)
                                               (ldiv O (ladd O (lmul O c_a d_ax) (lmul O c_b d_bx)) (ladd O c_a c_b))
                                        else cs in
                             if negb (Nat.eqb b x) then replace_at cs1 (tril_idx b x) (linf O) else cs1)
                          (seq 0 n) cells in
              upgma_loop f n cells' (replace_nth a (nth a card 0 + nth b card 0) card) merged' heights'
                         (replace_nth a u_node node_ids) t' (n_clusters - 1)
          | _ => Panic 34        (* merge_children(..).unwrap() *)
          end
      end
  end.

Definition upgma (m : dmat) : outcome arena :=
  let n := msize m in
  let '(t0, root) := add [] (new_node None None) in
  (* star tree: add_child(..).unwrap() cannot fail *)
  r <- foldM (fun (st : arena * list nat) (nm : str) =>
                match add_child (fst st) (new_node (Some nm) None) root None with
                | Ok (t', id) => Ok (t', snd st ++ [id])
                | _ => Panic 35
                end) (mtaxa m) (t0, []) ;;
  let '(t1, node_ids) := r in
  '(cells, merged, heights, node_ids', t2) <-
     upgma_loop (S n) n (mcells m) (repeat 1 n) (repeat false n) (repeat (l0 O) n) node_ids t1 n ;;
  match filter (fun i => negb (nth i merged true)) (seq 0 n) with
  | a_i :: b_i :: _ =>
      let a := nth a_i node_ids' 0 in
      let b := nth b_i node_ids' 0 in
      if Nat.eqb a_i b_i || Nat.leb n a_i || Nat.leb n b_i then Err IndexError else
      let two := ladd O (l1 O) (l1 O) in
      let th := ldiv O (cell cells a_i b_i) two in
      let d_ar := lsub O th (nth a_i heights (l0 O)) in
      let d_br := lsub O th (nth b_i heights (l0 O)) in
      match (t3 <- upd t2 root (fun x => node_set_child_edge (node_set_child_edge x a (Some d_ar)) b (Some d_br)) ;;
             t4 <- upd t3 a (fun x => set_npedge x (Some d_ar)) ;;
             upd t4 b (fun x => set_npedge x (Some d_br))) with
      | Ok t5 => Ok t5
      | _ => Panic 36
      end
  | _ => Err IndexError
  end.

End MatrixDefs.
