(* Arena.v — faithful model of `Node` / `Tree` (src/tree/node.rs, src/tree/tree_impl.rs):
   arena, accessors, traversals, editing operations.  MODEL FILE: definitions only. *)
From PT Require Export Base.

(* Operations on branch lengths used by the code (f64 in the crate). *)
Record LenOps (L : Type) := {
  l0 : L;                      (* 0.0 *)
  l1 : L;                      (* 1.0 *)
  ladd : L -> L -> L;
  lsub : L -> L -> L;
  lmul : L -> L -> L;
  ldiv : L -> L -> L;
  labs : L -> L;
  lltb : L -> L -> bool;       (* strict < *)
  leqb : L -> L -> bool;       (* == *)
  lofnat : nat -> L;           (* usize as f64 *)
  linf : L;                    (* f64::INFINITY (an absorbing top for the instances used) *)
}.
Arguments l0 {L} _.
Arguments l1 {L} _.
Arguments ladd {L} _ _ _.
Arguments lsub {L} _ _ _.
Arguments lmul {L} _ _ _.
Arguments ldiv {L} _ _ _.
Arguments labs {L} _ _.
Arguments lltb {L} _ _ _.
Arguments leqb {L} _ _ _.
Arguments lofnat {L} _ _.
Arguments linf {L} _.

Section ArenaDefs.
Context {L : Type}.

Record node := mkNode {
  nid : nat;
  nname : option str;
  nparent : option nat;
  nchildren : list nat;
  npedge : option L;
  ncomment : option str;
  nedges : list (nat * L);      (* child_edges, kept sorted by key; None and Some(empty) are not distinguishable *)
  ndepth : nat;
  ndeleted : bool;
}.

(* Node::new() / Node::new_named() with an optional comment set afterwards *)
Definition new_node (name comment : option str) : node :=
  mkNode 0 name None [] None comment [] 0 false.
Definition tombstone : node := mkNode 0 None None [] None None [] 0 true.

Definition arena := list node.

(* --- node.rs ------------------------------------------------------------------------------- *)
Fixpoint edge_get (es : list (nat * L)) (c : nat) : option L :=
  match es with
  | [] => None
  | (k, v) :: t => if Nat.eqb k c then Some v else edge_get t c
  end.
Fixpoint edge_insert (es : list (nat * L)) (c : nat) (v : L) : list (nat * L) :=
  match es with
  | [] => [(c, v)]
  | (k, w) :: t =>
      if Nat.eqb k c then (c, v) :: t
      else if Nat.ltb c k then (c, v) :: es
      else (k, w) :: edge_insert t c v
  end.
Fixpoint edge_remove (es : list (nat * L)) (c : nat) : list (nat * L) :=
  match es with
  | [] => []
  | (k, w) :: t => if Nat.eqb k c then t else (k, w) :: edge_remove t c
  end.

Definition set_nid n i := mkNode i (nname n) (nparent n) (nchildren n) (npedge n) (ncomment n) (nedges n) (ndepth n) (ndeleted n).
Definition set_nname n x := mkNode (nid n) x (nparent n) (nchildren n) (npedge n) (ncomment n) (nedges n) (ndepth n) (ndeleted n).
Definition set_ncomment n x := mkNode (nid n) (nname n) (nparent n) (nchildren n) (npedge n) x (nedges n) (ndepth n) (ndeleted n).
Definition set_nchildren n x := mkNode (nid n) (nname n) (nparent n) x (npedge n) (ncomment n) (nedges n) (ndepth n) (ndeleted n).
Definition set_nedges n x := mkNode (nid n) (nname n) (nparent n) (nchildren n) (npedge n) (ncomment n) x (ndepth n) (ndeleted n).
Definition set_ndepth n x := mkNode (nid n) (nname n) (nparent n) (nchildren n) (npedge n) (ncomment n) (nedges n) x (ndeleted n).
Definition set_npedge n x := mkNode (nid n) (nname n) (nparent n) (nchildren n) x (ncomment n) (nedges n) (ndepth n) (ndeleted n).
(* Node::set_parent(parent, edge) *)
Definition node_set_parent n p (e : option L) :=
  mkNode (nid n) (nname n) (Some p) (nchildren n) e (ncomment n) (nedges n) (ndepth n) (ndeleted n).
(* Node::set_child_edge: only stores Some *)
Definition node_set_child_edge n c (e : option L) :=
  match e with
  | Some v => set_nedges n (edge_insert (nedges n) c v)
  | None => n
  end.
(* Node::add_child *)
Definition node_add_child n c (e : option L) :=
  node_set_child_edge (set_nchildren n (nchildren n ++ [c])) c e.
(* Node::remove_child: Err(HasNoChild) if absent *)
Definition node_remove_child n c : option node :=
  match index_of c (nchildren n) with
  | None => None
  | Some k => Some (set_nedges (set_nchildren n (remove_at k (nchildren n))) (edge_remove (nedges n) c))
  end.
Definition is_tip n := match nchildren n with [] => true | _ => false end.
Definition is_root n := match nparent n with None => true | Some _ => false end.

(* --- Tree: add / get ------------------------------------------------------------------------ *)
Definition get (t : arena) (i : nat) : outcome node :=
  match nth_error t i with
  | None => Err NodeNotFound
  | Some n => if ndeleted n then Err NodeNotFound else Ok n
  end.
(* get_mut + closure + write back *)
Definition upd (t : arena) (i : nat) (f : node -> node) : outcome arena :=
  n <- get t i ;; Ok (replace_nth i (f n) t).

Definition add (t : arena) (n : node) : arena * nat :=
  (t ++ [set_nid n (length t)], length t).

Definition add_child (t : arena) (n : node) (parent : nat) (e : option L) : outcome (arena * nat) :=
  if Nat.leb (length t) parent then Err NodeNotFound else
  p <- get t parent ;;
  let n1 := set_ndepth (node_set_parent n parent e) (ndepth p + 1) in
  let '(t1, id) := add t n1 in
  (* get_mut(&id)?.set_id(id): a fresh node is never deleted *)
  t2 <- upd t1 id (fun x => set_nid x id) ;;
  t3 <- upd t2 parent (fun x => node_add_child x id e) ;;
  Ok (t3, id).

Definition size (t : arena) := length t.

(* fix F4: tombstones are skipped *)
Definition get_root (t : arena) : outcome nat :=
  match filter (fun n => negb (ndeleted n) && is_root n) t with
  | [] => Err RootNotFound
  | n :: _ => Ok (nid n)
  end.

Definition get_leaves (t : arena) : list nat :=
  map nid (filter (fun n => negb (ndeleted n) && is_tip n) t).

(* `self.get(leaf_id).unwrap().name`: ids come from live slots; the unwrap can fire only if a
   slot's id field differs from its position (never for reachable arenas) *)
Definition get_leaf_names (t : arena) : outcome (list (option str)) :=
  mapM (fun i => match get t i with Ok n => Ok (nname n) | _ => Panic 1 end) (get_leaves t).

(* fix F4: tombstones are skipped by n_leaves and search_nodes *)
Definition n_leaves (t : arena) : nat := length (filter (fun n => negb (ndeleted n) && is_tip n) t).

Definition search_nodes (t : arena) (p : node -> bool) : list nat :=
  map nid (filter (fun n => negb (ndeleted n) && p n) t).

Definition get_by_name (t : arena) (name : str) : option node :=
  find (fun n => match nname n with Some x => str_eqb x name | None => false end) t.

(* --- traversals (fuelled transcriptions of the recursive functions) ------------------------- *)
Fixpoint preorder_f (fuel : nat) (t : arena) (root : nat) : outcome (list nat) :=
  match fuel with
  | 0 => OutOfFuel
  | S f =>
      n <- get t root ;;
      rest <- concat_mapM (preorder_f f t) (nchildren n) ;;
      Ok (root :: rest)
  end.
Fixpoint postorder_f (fuel : nat) (t : arena) (root : nat) : outcome (list nat) :=
  match fuel with
  | 0 => OutOfFuel
  | S f =>
      n <- get t root ;;
      rest <- concat_mapM (postorder_f f t) (nchildren n) ;;
      Ok (rest ++ [root])
  end.
Fixpoint inorder_f (fuel : nat) (t : arena) (root : nat) : outcome (list nat) :=
  match fuel with
  | 0 => OutOfFuel
  | S f =>
      n <- get t root ;;
      match nchildren n with
      | [] => Ok [root]
      | [a] => l <- inorder_f f t a ;; Ok (l ++ [root])
      | [a; b] => l <- inorder_f f t a ;; r <- inorder_f f t b ;; Ok (l ++ [root] ++ r)
      | _ => Err IsNotBinary
      end
  end.
(* queue-based level order; fuel bounds the number of pops *)
Fixpoint levelorder_f (fuel : nat) (t : arena) (queue : list nat) (acc : list nat) : outcome (list nat) :=
  match queue with
  | [] => Ok (rev acc)
  | r :: q =>
      match fuel with
      | 0 => OutOfFuel
      | S f => n <- get t r ;; levelorder_f f t (q ++ nchildren n) (r :: acc)
      end
  end.

Definition fuel_of (t : arena) := S (length t).
Definition preorder t root := preorder_f (fuel_of t) t root.
Definition postorder t root := postorder_f (fuel_of t) t root.
Definition inorder t root := inorder_f (fuel_of t) t root.
(* the queue never holds more than one entry per node of a well-formed subtree; on a cyclic arena the
   real code does not terminate: fuel = 2 * size + 2 *)
Definition levelorder t root := levelorder_f (S (S (length t + length t))) t [root] [].

Definition get_subtree := preorder.
Definition get_descendants t root : outcome (list nat) :=
  n <- get t root ;; concat_mapM (preorder_f (fuel_of t) t) (nchildren n).
Definition get_subtree_leaves t root : outcome (list nat) :=
  l <- get_subtree t root ;;
  (* filter(|id| self.get(id).unwrap().is_tip()): ids were just fetched with get, cannot fail *)
  Ok (filter (fun i => match get t i with Ok n => is_tip n | _ => false end) l).

(* --- predicates / counts --------------------------------------------------------------------- *)
Definition is_rooted (t : arena) : outcome bool :=
  r <- get_root t ;;
  match t with
  | [] => Ok false
  | _ => n <- get t r ;; Ok (Nat.eqb (length (nchildren n)) 2)
  end.

Fixpoint is_binary_loop (t : arena) (ns : list node) : outcome bool :=
  match ns with
  | [] => Ok true
  | n :: rest =>
      match nparent n with
      | None =>
          r <- is_rooted t ;;
          if r && Nat.ltb 2 (length (nchildren n)) then Ok false
          else
            (* `else if !self.is_rooted()?` is evaluated again: same value *)
            if negb r && Nat.ltb 3 (length (nchildren n)) then Ok false
            else is_binary_loop t rest
      | Some _ => if Nat.ltb 2 (length (nchildren n)) then Ok false else is_binary_loop t rest
      end
  end.
Definition is_binary (t : arena) : outcome bool := is_binary_loop t t.

Definition has_unique_tip_names (t : arena) : outcome bool :=
  names <- get_leaf_names t ;;
  (* first unnamed leaf -> Err *)
  if existsb (fun o => match o with None => true | Some _ => false end) names then Err UnnamedLeaves
  else
    let ns := flat_map (fun o => match o with Some x => [x] | None => [] end) names in
    Ok (Nat.eqb (length (dedup_str ns)) (n_leaves t)).

Definition check_rooted_binary (t : arena) : outcome unit :=
  r <- is_rooted t ;;
  if negb r then Err IsNotRooted else
  b <- is_binary t ;;
  if negb b then Err IsNotBinary else Ok tt.

Fixpoint cherries_loop (t : arena) (ns : list node) (acc : nat) : outcome nat :=
  match ns with
  | [] => Ok acc
  | n :: rest =>
      match nchildren n with
      | [a; b] =>
          na <- get t a ;;
          if is_tip na then
            nb <- get t b ;;
            if is_tip nb then cherries_loop t rest (S acc) else cherries_loop t rest acc
          else cherries_loop t rest acc
      | _ => cherries_loop t rest acc
      end
  end.
Definition cherries (t : arena) : outcome nat :=
  b <- is_binary t ;;
  if negb b then Err IsNotBinary else
  match t with
  | [] => Err IsEmpty
  | _ => cherries_loop t t 0
  end.

Fixpoint colless_loop (t : arena) (ns : list node) (acc : nat) : outcome nat :=
  match ns with
  | [] => Ok acc
  | n :: rest =>
      match nchildren n with
      | [] => colless_loop t rest acc
      | a :: more =>
          l <- get_subtree_leaves t a ;;
          r <- match more with
               | b :: _ => x <- get_subtree_leaves t b ;; Ok (length x)
               | [] => Ok 0
               end ;;
          colless_loop t rest (acc + abs_diff (length l) r)
      end
  end.
Definition colless (t : arena) : outcome nat :=
  _ <- check_rooted_binary t ;; colless_loop t t 0.

Definition sackin (t : arena) : outcome nat :=
  _ <- check_rooted_binary t ;;
  ds <- mapM (fun i => match get t i with Ok n => Ok (ndepth n) | _ => Panic 2 end) (get_leaves t) ;;
  Ok (sum_nat ds).

(* --- paths ------------------------------------------------------------------------------------ *)
Fixpoint path_up_f (fuel : nat) (t : arena) (cur : nat) (acc : list nat) : outcome (list nat) :=
  match fuel with
  | 0 => OutOfFuel
  | S f =>
      n <- get t cur ;;
      match nparent n with
      | Some p => path_up_f f t p (cur :: acc)
      | None => Ok (cur :: acc)
      end
  end.
(* root first, node last *)
Definition get_path_from_root t i := path_up_f (fuel_of t) t i [].

(* index of the first position where the two paths differ, else min of the lengths *)
Fixpoint first_diff (a b : list nat) (k : nat) : nat :=
  match a, b with
  | x :: a', y :: b' => if Nat.eqb x y then first_diff a' b' (S k) else k
  | _, _ => k
  end.

Definition get_common_ancestor t (s d : nat) : outcome nat :=
  if Nat.eqb s d then Ok s else
  ps <- get_path_from_root t s ;;
  pd <- get_path_from_root t d ;;
  let cursor := first_diff ps pd 0 in
  match cursor with
  | 0 => Err RootNotFound             (* fix F12: nodes of different components share no ancestor (was `cursor - 1` underflow) *)
  | S c => match nth_error ps c with Some x => Ok x | None => Panic 4 end
  end.

(* --- editing ---------------------------------------------------------------------------------- *)
Fixpoint prune_f (fuel : nat) (t : arena) (root : nat) : outcome arena :=
  match fuel with
  | 0 => OutOfFuel
  | S f =>
      n <- get t root ;;
      t1 <- foldM (fun acc c => prune_f f acc c) (nchildren n) t ;;
      n1 <- get t1 root ;;
      t2 <- match nparent n1 with
            | Some p =>
                pn <- get t1 p ;;
                match node_remove_child pn root with
                | Some pn' => Ok (replace_nth p pn' t1)
                | None => Err NodeError
                end
            | None => Ok t1
            end ;;
      _ <- get t2 root ;;
      Ok (replace_nth root tombstone t2)
  end.
Definition prune t root := prune_f (fuel_of t) t root.

Variable O : LenOps L.

(* recursive depth recomputation (reset_depth_impl) *)
Fixpoint reset_depth_f (fuel : nat) (t : arena) (root : nat) (d : nat) : outcome arena :=
  match fuel with
  | 0 => OutOfFuel
  | S f =>
      n <- get t root ;;
      let t1 := replace_nth root (set_ndepth n d) t in
      foldM (fun acc c => reset_depth_f f acc c (d + 1)) (nchildren n) t1
  end.
Definition reset_depths (t : arena) : outcome arena :=
  r <- get_root t ;; reset_depth_f (fuel_of t) t r 0.

Definition compress_node (t : arena) (id : nat) : outcome arena :=
  n <- get t id ;;
  match nparent n, nchildren n with
  | Some parent, [child] =>
      let pe := npedge n in
      let ce := edge_get (nedges n) child in
      match (match pe, ce with
             | Some p, Some c => Some (Some (ladd O p c))
             | None, None => Some None
             | _, _ => None
             end) with
      | None => Err MissingBranchLengths
      | Some new_edge =>
          t1 <- upd t child (fun x => node_set_parent x parent new_edge) ;;
          t2 <- upd t1 parent (fun x => node_add_child x child new_edge) ;;
          pn <- get t2 parent ;;
          t3 <- match node_remove_child pn id with
                | Some pn' => Ok (replace_nth parent pn' t2)
                | None => Err NodeError
                end ;;
          _ <- get t3 id ;;
          let t4 := replace_nth id tombstone t3 in
          (* fix F2: depths of the re-parented subtree are recomputed *)
          pn4 <- get t4 parent ;;
          reset_depth_f (fuel_of t4) t4 child (ndepth pn4 + 1)
      end
  | _, _ => Err CouldNotCompressNode
  end.

(* compress: the list of nodes is decided up front; stops at the first error keeping earlier effects *)
Definition compress (t : arena) : outcome arena * arena :=
  let ids := map nid (filter (fun n => negb (ndeleted n) && negb (is_root n) && Nat.eqb (length (nchildren n)) 1) t) in
  (fix go (ids : list nat) (t : arena) : outcome arena * arena :=
     match ids with
     | [] => (Ok t, t)
     | i :: rest => match compress_node t i with
                    | Ok t' => go rest t'
                    | other => (other, t)
                    end
     end) ids t.

Definition rescale_node (f : L) (n : node) : node :=
  mkNode (nid n) (nname n) (nparent n) (nchildren n)
         (option_map (fun e => lmul O e f) (npedge n)) (ncomment n)
         (map (fun kv => (fst kv, lmul O (snd kv) f)) (nedges n)) (ndepth n) (ndeleted n).
(* rescale touches every slot, tombstones included (they hold no lengths) *)
Definition rescale (t : arena) (f : L) : arena := map (rescale_node f) t.

(* ladderize: reverse level order; counts indexed by node id; stable sort by count *)
Definition ladderize (t : arena) : outcome arena :=
  r <- get_root t ;;
  lo <- levelorder t r ;;
  '(t', _) <- foldM (fun (st : arena * list nat) id =>
            let '(t, cnt) := st in
            n <- get t id ;;
            let c := fold_left (fun acc ch => acc + nth ch cnt 0 + 1) (nchildren n) (nth id cnt 0) in
            let cnt' := replace_nth id c cnt in
            let ch' := stable_sort (fun a b => Nat.leb (nth a cnt' 0) (nth b cnt' 0)) (nchildren n) in
            Ok (replace_nth id (set_nchildren n ch') t, cnt'))
         (rev lo) (t, repeat 0 (length t)) ;;
  Ok t'.

(* resolve with explicit random choices: for every step the ordered pair (first popped, second popped)
   of children moved under the new node. Invalid choices -> None (not an outcome of the real code). *)
Fixpoint resolve_node_f (fuel : nat) (t : arena) (node_id : nat) (choices : list (nat * nat))
  : outcome (option (arena * list (nat * nat))) :=
  match fuel with
  | 0 => OutOfFuel
  | S f =>
      n <- get t node_id ;;
      let children := nchildren n in
      match choices with
      | [] => Ok None
      | (c1, c2) :: rest =>
          if negb (mem_nat c1 children && mem_nat c2 children && negb (Nat.eqb c1 c2)) then Ok None else
          '(t1, parent) <- add_child t (new_node None None) node_id (Some (l0 O)) ;;
          (* first popped child *)
          n1 <- get t1 c1 ;;
          let e1 := npedge n1 in
          t2 <- upd t1 parent (fun x => node_add_child x c1 e1) ;;
          t3 <- upd t2 c1 (fun x => node_set_parent x parent e1) ;;
          pn <- get t3 node_id ;;
          t4 <- match node_remove_child pn c1 with Some pn' => Ok (replace_nth node_id pn' t3) | None => Err NodeError end ;;
          n2 <- get t4 c2 ;;
          let e2 := npedge n2 in
          t5 <- upd t4 parent (fun x => node_add_child x c2 e2) ;;
          t6 <- upd t5 c2 (fun x => node_set_parent x parent e2) ;;
          pn2 <- get t6 node_id ;;
          t7 <- match node_remove_child pn2 c2 with Some pn' => Ok (replace_nth node_id pn' t6) | None => Err NodeError end ;;
          (* fix F2: depths below the new node *)
          pp <- get t7 parent ;;
          t8 <- reset_depth_f (fuel_of t7) t7 parent (ndepth pp) ;;
          (* children.len() after pop,pop,push = old - 1 *)
          if Nat.leb (length children - 1) 2 then Ok (Some (t8, rest))
          else resolve_node_f f t8 node_id rest
      end
  end.

Definition resolve (t : arena) (choices : list (nat * nat)) : outcome (option arena) :=
  let to_bin := map nid (filter (fun n => Nat.ltb 2 (length (nchildren n))) t) in
  r <- foldM (fun (st : option (arena * list (nat * nat))) id =>
          match st with
          | None => Ok None
          | Some (t, ch) => resolve_node_f (fuel_of t) t id ch
          end) to_bin (Some (t, choices)) ;;
  match r with
  | Some (t', []) => Ok (Some t')
  | _ => Ok None
  end.

Definition merge_children (t : arena) (c1 c2 : nat) (e1 e2 pe : option L) (pname : option str)
  : outcome (arena * nat) * arena :=
  match get t c1 with
  | Ok n1 =>
    match get t c2 with
    | Ok n2 =>
      if negb (onat_eqb (nparent n1) (nparent n2)) then (Err MergingNonSiblingNodes, t)
      else if Nat.eqb c1 c2 then (Err MergingNonSiblingNodes, t)   (* fix F3 *)
      else
        let r :=
          match nparent n1 with
          | Some pid =>
              pn <- get t pid ;;
              match node_remove_child pn c1 with
              | None => Err NodeError
              | Some pn1 =>
                  match node_remove_child pn1 c2 with
                  | None => Err NodeError
                  | Some pn2 => add_child (replace_nth pid pn2 t) (new_node None None) pid pe
                  end
              end
          | None => Ok (add t (new_node None None))
          end in
        match r with
        | Ok (t1, parent) =>
            match (t2 <- upd t1 parent (fun p => set_nname (node_add_child (node_add_child p c1 e1) c2 e2) pname) ;;
                   t3 <- upd t2 c1 (fun x => node_set_parent x parent e1) ;;
                   t4 <- upd t3 c2 (fun x => node_set_parent x parent e2) ;;
                   (* fix F2 *)
                   pp <- get t4 parent ;;
                   reset_depth_f (fuel_of t4) t4 parent (ndepth pp)) with
            | Ok t5 => (Ok (t5, parent), t5)
            | Err e => (Err e, t1)
            | Panic s => (Panic s, t1)
            | OutOfFuel => (OutOfFuel, t1)
            end
        | Err e => (Err e, t)
        | Panic s => (Panic s, t)
        | OutOfFuel => (OutOfFuel, t)
        end
    | Err e => (Err e, t) | Panic s => (Panic s, t) | OutOfFuel => (OutOfFuel, t)
    end
  | Err e => (Err e, t) | Panic s => (Panic s, t) | OutOfFuel => (OutOfFuel, t)
  end.

End ArenaDefs.
