(* Cli.v — model of the compositions performed by the command-line tool (src/bin/phylotree/main.rs) on top of the
   library: collapse, remove, rescale, the report rows.  MODEL FILE: definitions only. *)
From PT Require Export Gen.

Section CliDefs.
Context {L : Type}.
Variable O : LenOps L.
Notation arena := (@arena L).

(* `collapse`: preorder from the root; tips skipped with --exclude-tips; a branch strictly shorter than the threshold gets
   length zero on both records (fix F10: the root, which has no parent, is left alone) *)
Definition cli_collapse (t : arena) (thr : L) (excl : bool) : outcome arena :=
  r <- get_root t ;;
  pre <- preorder t r ;;
  foldM (fun (t : arena) (v : nat) =>
           n <- get t v ;;
           if excl && is_tip n then Ok t else
           match npedge n, nparent n with
           | Some len, Some p =>
               if lltb O len thr then
                 t1 <- upd t v (fun x => node_set_parent x p (Some (l0 O))) ;;
                 upd t1 p (fun x => node_set_child_edge x v (Some (l0 O)))
               else Ok t
           | _, _ => Ok t
           end) pre t.

(* `remove`: for each name the first node carrying it must be a tip (else the tool panics: Panic 40 / 41), it is pruned;
   then one compress *)
Definition cli_remove (t : arena) (tips : list str) : outcome arena :=
  t1 <- foldM (fun (t : arena) (nm : str) =>
                 match get_by_name t nm with
                 | None => Panic 40
                 | Some n => if is_tip n then prune t (nid n) else Panic 41
                 end) tips t ;;
  match compress O t1 with
  | (Ok t2, _) => Ok t2
  | (Err e, _) => Err e
  | (Panic s, _) => Panic s
  | (OutOfFuel, _) => OutOfFuel
  end.

Definition cli_rescale (t : arena) (f : L) : arena := rescale O t f.

End CliDefs.
