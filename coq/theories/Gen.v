(* Gen.v — models of the random tree generators (src/lib.rs) with the random choices as explicit
   arguments, and of draw::radial_layout.  MODEL FILE: definitions only. *)
From PT Require Export Matrix.

Section GenDefs.
Context {L : Type}.
Variable O : LenOps L.
Notation arena := (@arena L).
Notation node := (@node L).

Definition tip_name (i : nat) : str := [84; 105; 112; 95]%N ++ dec_of_nat i.

(* lengths are consumed two per step when brlens is set *)
Definition take2 (brlens : bool) (lens : list L) : option (option L * option L * list L) :=
  if brlens then
    match lens with
    | a :: b :: r => Some (Some a, Some b, r)
    | _ => None
    end
  else Some (None, None, lens).

Definition name_tips (t : arena) (ids : list nat) : outcome arena :=
  foldM (fun (t : arena) (p : nat * nat) => upd t (snd p) (fun x => set_nname x (Some (tip_name (fst p)))))
        (combine (seq 0 (length ids)) ids) t.

(* generate_tree (ETE3-like).  [parents]: the node split at each step; it must be the front or the back
   of the deque (those are the two outcomes of gen_bool).  None = not an outcome of the real code. *)
Fixpoint gen_ete3_loop (steps : nat) (brlens : bool) (t : arena) (deq : list nat) (parents : list nat) (lens : list L)
  : outcome (option (arena * list nat)) :=
  match steps with
  | 0 => match parents, lens with [], [] => Ok (Some (t, deq)) | _, _ => Ok None end
  | S k =>
      match parents, take2 brlens lens with
      | p :: ps, Some (l1', l2', lens') =>
          let front := hd_error deq in
          let back := last_opt deq in
          let deq' := if onat_eqb front (Some p) then Some (tl deq)
                      else if onat_eqb back (Some p) then Some (removelast deq) else None in
          match deq' with
          | None => Ok None
          | Some dq =>
              '(t1, c1) <- add_child t (new_node None None) p l1' ;;
              '(t2, c2) <- add_child t1 (new_node None None) p l2' ;;
              gen_ete3_loop k brlens t2 (dq ++ [c1; c2]) ps lens'
          end
      | _, _ => Ok None
      end
  end.

(* fix F13: zero leaves is refused *)
Definition generate_tree (n : nat) (brlens : bool) (parents : list nat) (lens : list L) : outcome (option arena) :=
  if Nat.eqb n 0 then Err IsEmpty else
  let '(t0, _) := add [] (new_node None None) in
  r <- gen_ete3_loop (n - 1) brlens t0 [0] parents lens ;;
  match r with
  | None => Ok None
  | Some (t, deq) => t' <- name_tips t deq ;; Ok (Some t')
  end.

(* generate_yule: each step splits one of the current tips *)
Fixpoint gen_yule_loop (fuel : nat) (n : nat) (brlens : bool) (t : arena) (parents : list nat) (lens : list L)
  : outcome (option arena) :=
  if Nat.eqb (n_leaves t) n then
    match parents, lens with [], [] => Ok (Some t) | _, _ => Ok None end
  else
  match fuel with
  | 0 => OutOfFuel
  | S f =>
      match parents, take2 brlens lens with
      | p :: ps, Some (l1', l2', lens') =>
          if negb (mem_nat p (get_leaves t)) then Ok None else
          '(t1, _) <- add_child t (new_node None None) p l1' ;;
          '(t2, _) <- add_child t1 (new_node None None) p l2' ;;
          gen_yule_loop f n brlens t2 ps lens'
      | _, _ => Ok None
      end
  end.

Definition generate_yule (n : nat) (brlens : bool) (parents : list nat) (lens : list L) : outcome (option arena) :=
  if Nat.eqb n 0 then Err IsEmpty else
  let '(t0, _) := add [] (new_node None None) in
  r <- gen_yule_loop n n brlens t0 parents lens ;;
  match r with
  | None => Ok None
  | Some t => t' <- name_tips t (get_leaves t) ;; Ok (Some t')
  end.

Fixpoint gen_cat_loop (steps : nat) (i : nat) (n : nat) (brlens : bool) (t : arena) (parent : nat) (lens : list L)
  : outcome (option arena) :=
  match steps with
  | 0 => match lens with [] => Ok (Some t) | _ => Ok None end
  | S k =>
      match take2 brlens lens with
      | Some (l1', l2', lens') =>
          if Nat.eqb i (n - 1) then
            '(t1, _) <- add_child t (new_node (Some (tip_name i)) None) parent l1' ;;
            '(t2, _) <- add_child t1 (new_node (Some (tip_name (i + 1))) None) parent l2' ;;
            gen_cat_loop k (S i) n brlens t2 parent lens'
          else
            '(t1, np) <- add_child t (new_node None None) parent l1' ;;
            '(t2, _) <- add_child t1 (new_node (Some (tip_name i)) None) parent l2' ;;
            gen_cat_loop k (S i) n brlens t2 np lens'
      | None => Ok None
      end
  end.
Definition generate_caterpillar (n : nat) (brlens : bool) (lens : list L) : outcome (option arena) :=
  let '(t0, _) := add [] (new_node None None) in
  gen_cat_loop (n - 1) 1 n brlens t0 0 lens.

(* ---- radial layout ---------------------------------------------------------------------------------- *)
(* per non-root node in preorder: (parent, node, branch length, direction in turns, label).
   The crate evaluates x[v] = x[u] + d * (cos, sin)(2*pi*turns); cos/sin are applied by the comparator. *)
Definition radial_layout (t : arena) : outcome (list (nat * nat * L * L * option str)) :=
  root <- get_root t ;;
  post <- postorder t root ;;
  lcount <- foldM (fun (l : list nat) v =>
                     n <- get t v ;;
                     if is_tip n then Ok (replace_nth v 1 l)
                     else Ok (replace_nth v (fold_left (fun acc c => acc + nth c l 0) (nchildren n) (nth v l 0)) l))
                  post (repeat 0 (length t)) ;;
  pre <- preorder t root ;;
  let lroot := lofnat O (nth root lcount 0) in
  (* w, t in turns; root: w = 1, t = 0 *)
  '(_, _, segs) <- foldM (fun (st : list L * list L * list (nat * nat * L * L * option str)) v =>
      let '(w, th, segs) := st in
      n <- get t v ;;
      segs' <- (if Nat.eqb v root then Ok segs else
                match npedge n with
                | None => Err MissingBranchLengths
                | Some d =>
                    match nparent n with
                    | None => Err NodeError
                    | Some u =>
                        let two := ladd O (l1 O) (l1 O) in
                        Ok (segs ++ [(u, v, d, ladd O (nth v th (l0 O)) (ldiv O (nth v w (l0 O)) two), nname n)])
                    end
                end) ;;
      let '(w', th', _) :=
         fold_left (fun (acc : list L * list L * L) c =>
                      let '(w, th, nn) := acc in
                      let wc := ldiv O (lofnat O (nth c lcount 0)) lroot in
                      (replace_at w c wc, replace_at th c nn, ladd O nn wc))
                   (nchildren n) (w, th, nth v th (l0 O)) in
      Ok (w', th', segs'))
    pre (repeat (l1 O) (length t), repeat (l0 O) (length t), []) ;;
  Ok segs.

End GenDefs.
