#!/usr/bin/env python3
"""checklib.py - the per-property check driver: proof obligations, builds, correspondence, property
predicates on the implementation, verdict, evidence."""
import os, sys, json, time, random, re, subprocess, glob, hashlib
sys.path.insert(0, os.path.dirname(os.path.abspath(__file__)))
import vf
import vmcheck
from vf import Case

VERIF = vf.VERIF
COQ = os.path.join(VERIF, 'coq')

FORBIDDEN = re.compile(r'\b(Admitted|admit|Axiom|Parameter|Conjecture|Admit Obligations)\b|Unset Guard|bypass_check|type-in-type|impredicative-set|Unset Universe Checking|Unset Positivity')

# axioms of the Coq standard library that theorems may depend on (named in DESIGN.md, trusted base)
ALLOWED_AXIOMS = {
    'ClassicalDedekindReals.sig_forall_dec', 'ClassicalDedekindReals.sig_not_dec',
    'FunctionalExtensionality.functional_extensionality_dep',
    'Classical_Prop.classic',
}

TRUSTED_BASE = [
    'Coq 8.16.1 kernel (coqc full .vo build; vm_compute used in Examples / witnesses; no native_compute)',
    'hand-written Gallina model of the crate (coq/theories/*.v), tied to /repo by the correspondence check',
    'extraction with ExtrOcamlBasic directives only; OCaml 4.13.1 compiler',
    'ocaml/driver.ml (script parser / printer), Rust harness (harness/src), Python comparator (tools/vf.py)',
    'Rust std f64/f32 Display + FromStr round trip (premises H1/H2), sort stability, HashMap/FixedBitSet/VecMap semantics',
]

def strip_comments(src):
    out = []
    depth = 0
    i = 0
    while i < len(src):
        if src.startswith('(*', i):
            depth += 1; i += 2
        elif src.startswith('*)', i) and depth > 0:
            depth -= 1; i += 2
        else:
            if depth == 0:
                out.append(src[i])
            i += 1
    return ''.join(out)

def proof_obligations(pid):
    """Full build of the development, forbidden-token scan, and Print Assumptions of props/<pid>.v.
    Returns dict(ok, obligations, discharged, theorems, axioms, failure)"""
    res = {'ok': False, 'obligations': 0, 'discharged': 0, 'theorems': [], 'axioms': [], 'failure': None}
    ok, log = vf.build_model()
    if not ok:
        res['failure'] = 'Coq development does not build:\n' + log[-3000:]
        # try to name the failing file / lemma
        return res
    bad = []
    # every file of the development (those listed in _CoqProject, plus the property files and Extract.v)
    listed = [os.path.join(COQ, l.strip()) for l in open(os.path.join(COQ, '_CoqProject')) if l.strip().endswith('.v')]
    listed += glob.glob(os.path.join(COQ, 'theories', 'props', '*.v')) + [os.path.join(COQ, 'theories', 'Extract.v')]
    for f in listed:
        src = strip_comments(open(f).read())
        for m in FORBIDDEN.finditer(src):
            bad.append('%s: %s' % (os.path.relpath(f, VERIF), m.group(0)))
    if bad:
        res['failure'] = 'forbidden declarations: ' + '; '.join(bad[:10])
        return res
    pf = os.path.join(COQ, 'theories', 'props', pid + '.v')
    if not os.path.exists(pf):
        res['failure'] = 'no property file ' + pf
        return res
    src = strip_comments(open(pf).read())
    thms = re.findall(r'\b(?:Theorem|Lemma|Corollary)\s+([A-Za-z0-9_\']+)', src)
    res['theorems'] = thms
    res['obligations'] = len(thms)
    # property files may only state theorems closed by `exact`, no proof scripts hiding weakenings
    outdir = os.path.join(vf.BUILD, 'props')
    os.makedirs(outdir, exist_ok=True)
    r = vf.sh('timeout 600 coqc -Q %s PT -o %s %s' % (os.path.join(COQ, 'theories'), os.path.join(outdir, pid + '.vo'), pf), cwd=outdir)
    if r.returncode != 0:
        res['failure'] = 'props/%s.v does not check:\n%s' % (pid, r.stdout[-2000:])
        return res
    out = r.stdout
    # parse Print Assumptions output
    axioms = set()
    closed = out.count('Closed under the global context')
    for m in re.finditer(r'^([A-Za-z_][A-Za-z0-9_\.\']*)\s*:', out, re.M):
        name = m.group(1)
        if name not in ('Axioms',):
            axioms.add(name)
    res['axioms'] = sorted(axioms)
    n_pa = len(re.findall(r'Print Assumptions', src))
    if n_pa < len(thms):
        res['failure'] = 'props/%s.v: %d theorems but only %d Print Assumptions' % (pid, len(thms), n_pa)
        return res
    # primitive integers / floats of the Coq kernel and their standard-library specifications (Uint63, PrimFloat, FloatAxioms) are
    # listed by Print Assumptions; they are part of the standard library, named in the trusted base (DESIGN.md)
    STD_PREFIXES = ('PrimFloat.', 'Uint63.', 'PrimInt63.', 'FloatOps.', 'FloatAxioms.', 'SpecFloat.')
    notallowed = [a for a in axioms if a not in ALLOWED_AXIOMS and not a.startswith(STD_PREFIXES)]
    if notallowed:
        res['failure'] = 'props/%s.v depends on axioms outside the allow-list: %s' % (pid, notallowed)
        return res
    res['discharged'] = len(thms)
    res['ok'] = True
    return res

def load_known_findings():
    p = os.path.join(VERIF, 'known_findings.json')
    if not os.path.exists(p):
        return []
    return json.load(open(p)).get('findings', [])

class Result:
    def __init__(self):
        self.violations = []       # (case, reasons, kind)
        self.known = []

# ---- comparison of observations in forked workers (the inputs are inherited, only the differences travel back) -------------------------
_PC = None
def _pc_range(rng_):
    chk, chunk, c_impl, c_model = _PC
    out = []
    for c in chunk[rng_[0]:rng_[1]]:
        il = c_impl.get(c.cid, [])
        d = [] if c.meta.get('impl_only') else vf.compare_case(c, il, c_model.get(c.cid, []), chk.case_tol(c), chk.strict_err_ops)
        pr = None
        if chk.pure_predicate:
            pr = safe_predicate(chk, c, il)
        out.append((d, pr))
    return out

def safe_predicate(chk, c, il):
    try:
        return chk.predicate(c, il)
    except Exception as ex:      # e.g. a dump that is not a tree at all: the oracle cannot even be evaluated
        return [(0, 'the implementation output is malformed: the property predicate cannot be evaluated on it (%s: %s)' % (type(ex).__name__, str(ex)[:120]))]

def parallel_compare(chk, chunk, c_impl, c_model):
    global _PC
    n = len(chunk)
    if n < 400:
        _PC = (chk, chunk, c_impl, c_model)
        try:
            return _pc_range((0, n))
        finally:
            _PC = None
    import multiprocessing
    _PC = (chk, chunk, c_impl, c_model)
    try:
        k = min(vf.NCPU, 16)
        step = max(50, (n + 4 * k - 1) // (4 * k))
        ranges = [(i, min(n, i + step)) for i in range(0, n, step)]
        with multiprocessing.get_context('fork').Pool(k) as pool:
            parts = pool.map(_pc_range, ranges)
        return [d for part in parts for d in part]
    finally:
        _PC = None

class PropCheck:
    """subclass per property: override gen_cases(tier, rng), nontrivial(case), predicate(case, impl_lines)"""
    pid = 'C00'
    tol = None                    # None = exact comparison of floats; else relative tolerance
    strict_err_ops = ()
    rule = ''
    timeout = 600
    release_too = False
    vm_sample = 20
    extra_assumptions = []

    def __init__(self, tier, seed):
        self.tier = tier
        self.seed = seed
        self.rng = random.Random(seed * 1000003 + int(hashlib.sha1(self.pid.encode()).hexdigest()[:6], 16))
        self.workdir = os.path.join(vf.BUILD, 'work', self.pid)
        self.stats = {}
        self.known_classes = {}

    # -- to override ------------------------------------------------------------------------------
    pure_predicate = False     # True: the predicate reads only its arguments (no counters on self) and may be evaluated in the workers
    def gen_cases(self):
        return []
    def case_chunks(self):
        """iterable of lists of cases; large generated sets are processed in slices so that the observations of only one slice are in
        memory at a time; override to stream case sets that should not even be generated at once"""
        cases = self.gen_cases()
        n = getattr(self, 'chunk_size', 30000)
        if len(cases) <= n:
            return [cases]
        def slices():
            while cases:
                chunk = cases[:n]
                del cases[:n]
                yield chunk
        return slices()
    def nontrivial(self, case, impl_lines):
        return True
    def predicate(self, case, impl_lines):
        """property predicate evaluated on the implementation's observations.
        returns list of (op_index, reason) where the property itself fails"""
        return []
    def case_tol(self, case):
        return case.meta.get('tol', self.tol)
    def known_finding(self, case, reasons):
        """returns the id of a known finding whose class predicate matches this failing case, else None"""
        return None
    def extra_coverage(self):
        return {}
    def ignore_disagreement(self, case, reasons):
        """True when a model/implementation disagreement on this case is expected and harmless (stated per property in DESIGN.md)"""
        return False

    # -- machinery ---------------------------------------------------------------------------------
    def corpus_cases(self):
        out = []
        d = os.path.join(VERIF, 'corpus', self.pid)
        for f in sorted(glob.glob(os.path.join(d, '*.txt'))):
            ops = [l.rstrip('\n') for l in open(f) if l.strip() and not l.startswith('#') and not l.startswith('case ')]
            meta = {'corpus': True}
            for l in open(f):
                if l.startswith('#meta '):
                    try:
                        meta.update(json.loads(l[6:]))
                    except ValueError:
                        pass
            out.append(Case('corpus_' + os.path.basename(f)[:-4], ops, meta))
        return out

    def run(self, replay=None):
        t0 = time.time()
        pid = self.pid
        ev = {'property_id': pid, 'tier': self.tier, 'seed': self.seed, 'level': 'proof', 'coverage': {}, 'assumptions': [], 'wall_s': 0.0, 'violations': 0}
        violation_lines = []
        os.makedirs(self.workdir, exist_ok=True)
        replay_dir = os.path.join(VERIF, 'build', 'replays', pid)
        os.makedirs(replay_dir, exist_ok=True)

        # 1. proof obligations
        po = proof_obligations(pid)
        if not po['ok']:
            rp = os.path.join(replay_dir, 'proof_obligation.txt')
            with open(rp, 'w') as f:
                f.write('# property %s: proof obligation no longer checks\n%s\n' % (pid, po['failure']))
            violation_lines.append('VIOLATION property=%s replay=%s no-failing-input-found' % (pid, rp))

        # 2. harness build
        ok, log = vf.build_harness()
        if not ok:
            rp = os.path.join(replay_dir, 'harness_build.txt')
            with open(rp, 'w') as f:
                f.write('# property %s: the harness no longer builds against /repo, the correspondence cannot be established\n%s\n' % (pid, log[-4000:]))
            print('VIOLATION property=%s replay=%s no-failing-input-found' % (pid, rp))
            ev['coverage'] = {'obligations': max(1, po['obligations']), 'discharged': po['discharged'], 'checker_cmd': 'make -C coq; coqc props/%s.v' % pid,
                              'trusted_base': TRUSTED_BASE, 'evaluations': 0, 'distinct_nontrivial': 0, 'rule': self.rule, 'samples': ['harness build failed']}
            ev['violations'] = 1
            ev['wall_s'] = time.time() - t0
            self.write_evidence(ev)
            return 1
        if self.release_too and self.tier == 'thorough':
            vf.build_harness(release=True)

        # 3. cases: corpus first, then generated cases, processed chunk by chunk (bounded memory for the big exhaustive sets)
        if replay:
            ops = [l.rstrip('\n') for l in open(replay) if l.strip() and not l.startswith('#') and not l.startswith('case ')]
            meta = {}
            for l in open(replay):
                if l.startswith('#meta '):
                    try:
                        meta = json.loads(l[6:])
                    except ValueError:
                        pass
            cid = 'replay'
            for l in open(replay):
                if l.startswith('case ') and len(l.split()) == 2:
                    cid = l.split()[1]; break
            chunks = [[Case(cid, ops, meta)]]
        else:
            chunks = self.case_chunks()
        disagreements = []
        pred_fail = []
        seen = set()
        nontriv = 0
        n_cases = 0
        n_ops = 0
        n_model = 0
        impl = {}; model = {}
        op_hist = {}             # input distribution: op kind -> outcome class (ok / err / panic / ...) -> count, on the implementation
        kept_cases = []          # a thinned sample kept for the extraction cross-check and the evidence samples
        first_chunk = True
        for chunk in chunks:
            if first_chunk and not replay:
                chunk = self.corpus_cases() + chunk
                first_chunk = False
            if not chunk:
                continue
            c_impl, c_model = vf.run_cases(chunk, self.workdir, timeout=self.timeout)
            diffs = parallel_compare(self, chunk, c_impl, c_model)
            for ci, c in enumerate(chunk):
                il = c_impl.get(c.cid, [])
                ml = c_model.get(c.cid, [])
                d, p = diffs[ci]
                if p is None:
                    p = safe_predicate(self, c, il)
                if d and self.ignore_disagreement(c, d):
                    self.stats['disagreements_ignored_by_rule'] = self.stats.get('disagreements_ignored_by_rule', 0) + 1
                    d = []
                keep = False
                if d:
                    disagreements.append((c, d)); keep = True
                if p:
                    pred_fail.append((c, p)); keep = True
                h = vf.case_hash(c)
                if h not in seen:
                    seen.add(h)
                    if self.nontrivial(c, il):
                        nontriv += 1
                n_cases += 1
                n_ops += len(c.ops)
                for o, l in zip(c.ops, il):
                    kd = o.split(' ', 1)[0]
                    cl = l[0] if l else '?'
                    hk = op_hist.setdefault(kd, {})
                    hk[cl] = hk.get(cl, 0) + 1
                if not c.meta.get('impl_only'):
                    n_model += 1
                if keep or n_cases % 97 == 1 or n_cases <= 3:
                    if keep or len(kept_cases) < 5000:
                        kept_cases.append(c)
                        impl[c.cid] = il; model[c.cid] = ml
                else:
                    c.meta.pop('model_ops', None)
        cases = kept_cases

        # 4b. the extracted program against vm_compute inside Coq on a sample of the same cases
        vm = {'sampled': 0, 'agreed': 0, 'failed': []}
        if not replay:
            sample = [c for c in cases if not c.meta.get('impl_only') and c.meta.get('model_ops')]
            step = max(1, len(sample) // 200)
            vm = vmcheck.cross_evaluate(sample[::step], model, os.path.join(self.workdir, 'vm'), max_cases=self.vm_sample)
            if vm['failed']:
                rp = os.path.join(replay_dir, 'extraction_cross_check.txt')
                with open(rp, 'w') as f:
                    f.write('# property %s: the extracted OCaml model and vm_compute inside Coq disagree on cases %s\n# (the tie between theorems and executed model is broken)\n%s\n' % (pid, vm['failed'][:5], vm.get('log', '')))
                violation_lines.append('VIOLATION property=%s replay=%s no-failing-input-found' % (pid, rp))

        # 5. verdict
        known = load_known_findings()
        reported_known = set()
        n_viol = 0
        def handle(c, reasons, kind):
            nonlocal n_viol
            kf = self.known_finding(c, reasons)
            if kf is not None and any(k.get('id') == kf and k.get('property') == pid and k.get('status', 'open') == 'open' for k in known):
                reported_known.add(kf)
                return
            n_viol += 1
            if n_viol <= 5:
                rp = os.path.join(replay_dir, '%s_%s.txt' % (kind, c.cid))
                vf.write_replay(rp, pid, c, impl.get(c.cid, []), model.get(c.cid, []), reasons,
                                note={'pred': 'the property predicate fails on the implementation output',
                                      'corr': 'implementation and model disagree; no input violating the property predicate was found'}[kind])
                violation_lines.append('VIOLATION property=%s replay=%s%s' % (pid, rp, '' if kind == 'pred' else ' no-failing-input-found'))
        for c, p in pred_fail:
            handle(c, p, 'pred')
        if disagreements:
            # search: a disagreeing case whose predicate fails was already reported above; otherwise report the
            # broken correspondence (no failing input found)
            failing_ids = set(c.cid for c, _ in pred_fail)
            if pred_fail and n_viol > 0:
                pass   # concrete failing inputs were found and reported
            for c, d in disagreements:
                if c.cid in failing_ids:
                    continue
                if pred_fail and n_viol > 0:
                    # disagreement explained by a real violation found elsewhere: still list it once
                    continue
                handle(c, d, 'corr')
        for kf in sorted(reported_known):
            desc = [k for k in known if k.get('id') == kf][0].get('what', '')
            print('KNOWN-FINDING: property=%s %s %s' % (pid, kf, desc))
        for l in violation_lines[:8]:
            print(l)

        # 6. evidence
        samples = []
        for c in cases[:2] + cases[len(cases) // 2: len(cases) // 2 + 1] + cases[-1:]:
            samples.append({'case': c.cid, 'ops': c.ops[:12], 'impl': [' '.join(x)[:300] for x in impl.get(c.cid, [])[:12]]})
        cov = {
            'obligations': max(1, po['obligations']), 'discharged': po['discharged'],
            'checker_cmd': 'make -C /verif/coq (full .vo build) && coqc -Q coq/theories PT coq/theories/props/%s.v (Print Assumptions)' % pid,
            'trusted_base': TRUSTED_BASE + ['axioms reported by Print Assumptions: ' + (', '.join(po['axioms']) if po['axioms'] else 'none (closed under the global context)')],
            'theorems': po['theorems'],
            'evaluations': n_cases, 'distinct_nontrivial': nontriv, 'rule': self.rule, 'samples': samples,
            'disagreements': len(disagreements), 'predicate_failures': len(pred_fail),
            'known_findings_matched': sorted(reported_known),
            'extraction_cross_check': {'cases_re_evaluated_in_coq_by_vm_compute': vm['sampled'], 'agreed_with_extracted_program': vm['agreed']},
            'ops_executed': n_ops,
            'op_outcome_histogram': {k: op_hist[k] for k in sorted(op_hist, key=lambda k: -sum(op_hist[k].values()))[:40]},
            'cases_compared_with_model': n_model,
        }
        cov.update(self.stats)
        cov.update(self.extra_coverage())
        ev['coverage'] = cov
        ev['assumptions'] = ['model faithful to the code only as far as the generated cases exercise it'] + list(self.extra_assumptions)
        ev['violations'] = len(violation_lines)
        ev['wall_s'] = round(time.time() - t0, 2)
        self.write_evidence(ev)
        return 1 if violation_lines else 0

    def write_evidence(self, ev):
        d = os.path.join(VERIF, 'evidence')
        os.makedirs(d, exist_ok=True)
        with open(os.path.join(d, self.pid + '.json'), 'w') as f:
            json.dump(ev, f, indent=1)
