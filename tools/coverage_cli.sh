#!/bin/bash
# coverage_cli.sh : which lines of /repo/src/bin/phylotree/main.rs the C18 quick check executes (a tool, not a check).
T=/root/.rustup/toolchains/nightly-x86_64-unknown-linux-gnu/lib/rustlib/x86_64-unknown-linux-gnu/bin
S=$(mktemp -d /tmp/ptclicov.XXXXXX); mkdir -p $S/prof
cd /verif
VERIF_CLI_TARGET=$S/target VERIF_CLI_RUSTFLAGS="-C instrument-coverage" LLVM_PROFILE_FILE=$S/prof/%p-%m.profraw ./check C18 > $S/check.out 2>&1
echo "check C18 exit=$?"
$T/llvm-profdata merge -sparse $S/prof/*.profraw -o $S/all.profdata
$T/llvm-cov report $S/target/debug/phylotree -instr-profile=$S/all.profdata /repo/src/bin | tee /verif/build/coverage_cli_report.txt
$T/llvm-cov show $S/target/debug/phylotree -instr-profile=$S/all.profdata /repo/src/bin -show-line-counts-or-regions=false 2>/dev/null \
  | awk '/^ +[0-9]+\| +0\|/{print}' > /verif/build/coverage_cli_missed.txt
wc -l /verif/build/coverage_cli_missed.txt
rm -rf $S; rm -f /repo/default_*.profraw /verif/harness/default_*.profraw /verif/default_*.profraw
