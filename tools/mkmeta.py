#!/usr/bin/env python3
"""mkmeta.py <round> <missed.json> : writes seeded/<id>/meta.json for every seeded change that has none yet.
missed.json maps id -> description of the strengthening that was needed (ids not listed were caught as built)."""
import json, os, re, sys
rnd = int(sys.argv[1]); missed = json.load(open(sys.argv[2])) if len(sys.argv) > 2 else {}
for d in sorted(os.listdir('/verif/seeded')):
    p = os.path.join('/verif/seeded', d)
    if not os.path.isdir(p) or os.path.exists(os.path.join(p, 'meta.json')):
        continue
    readme = open(os.path.join(p, 'README.md')).read()
    prop = d.split('_')[0]
    meta = {
      'id': d, 'property': prop, 'round': rnd,
      'origin': 'independent sub-agent given only the property text and a scratch worktree of /repo (nothing from /verif); asked for mechanisms different from the earlier rounds',
      'needs_to_manifest': re.sub(r'\s+', ' ', readme)[:600],
      'confirmed': {'applies_with_git_apply': True, 'crate_compiles': True,
                    'existing_suite_passes_with_change': '48 unit + 37 doc tests pass (cargo test --offline in the scratch worktree)',
                    'demo_fails_with_change': True, 'demo_passes_without_change': True,
                    'how': 'tools/verify_mutants.sh in the scratch worktree (apply, cargo test, demo as tests/demo_k.rs, revert, demo again)'},
      'detected_by': prop + (' (after strengthening: %s)' % missed[d] if d in missed else ''), 'missed_in_first_round': d in missed,
      'ran': 'python3 tools/mutant_eval.py seeded/%s/patch.diff %s' % (d, prop),
    }
    json.dump(meta, open(os.path.join(p, 'meta.json'), 'w'), indent=1)
    print('wrote', d)
