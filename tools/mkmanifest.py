#!/usr/bin/env python3
"""writes /verif/MANIFEST.json from the table below and the set of property modules that exist"""
import json, os
V = '/verif'
INFO = {
 'C01': ('Newick write->parse round trip', 'theorems on the model: to_newick / from_newick round trip pieces; correspondence on API-built, parsed and edited trees incl. all f64 classes', '4/C01'),
 'C02': ('parser total + well-formed results', 'parser totality and well-formedness invariant; exhaustive strings over the token alphabet + Unicode fuzz, arena-exact correspondence', '4/C02'),
 'C03': ('arena invariants under edit histories', 'invariant WF preserved by every modelled operation, lifted to histories by induction; exhaustive depth-bounded histories + random walks, arena-exact correspondence', '4/C03'),
 'C04': ('queries depend only on the tree', 'refinement of queries through the abstraction; metamorphic + differential runs after histories', '4/C04'),
 'C05': ('bipartitions = non-trivial splits', 'split-set characterisation theorems; exhaustive labelled shapes x name permutations', '4/C05'),
 'C06': ('Robinson-Foulds', 'RF as symmetric difference of split sets, symmetry; all ordered pairs of small shapes', '4/C06'),
 'C07': ('weighted RF / branch score', 'closed forms over split->length maps; exact dyadic lengths bitwise', '4/C07'),
 'C08': ('distance matrices', 'cell = path sum theorems; both algorithms vs model on exact lengths', '4/C08'),
 'C09': ('paths, LCA, distances', 'path / LCA / distance theorems; all ordered node pairs', '4/C09'),
 'C10': ('traversals', 'traversal refinement theorems on the arena model; every start node', '4/C10'),
 'C11': ('exact effect of edits', 'per-operation effect theorems; all arguments on small trees, resolve over all choice sequences', '4/C11'),
 'C12': ('shape statistics', 'statistics = textbook definitions; all binary shapes to a bound', '4/C12'),
 'C13': ('triangular storage', 'index bijection for all n (nat), get/set laws; float inverse sweep via hook', '4/C13'),
 'C14': ('Phylip codec', 'round trip theorem under std premises; totality; exhaustive short texts', '4/C14'),
 'C15': ('UPGMA', 'shape / ultrametric / linkage theorems over exact rationals; exhaustive small matrices', '4/C15'),
 'C16': ('output formats + Nexus', 'format table theorems; 9 formats x label mixtures', '4/C16'),
 'C17': ('random generators', 'for every choice sequence: shape theorems; seeds via hook', '4/C17'),
 'C18': ('CLI', 'composition theorems; the real binary on generated files', '4/C18'),
 'C19': ('radial layout', 'wedge partition / segment length theorems; coordinates vs model angles', '4/C19'),
 'C20': ('errors not panics', 'no-Panic theorems per modelled function; cross product fn x degenerate class', '4/C20'),
}
def main():
    checks = []
    na = []
    for pid in sorted(INFO):
        title, text, ref = INFO[pid]
        if os.path.exists(os.path.join(V, 'tools/props', pid.lower() + '.py')):
            checks.append({
                'property_id': pid,
                'quick_cmd': './check %s --tier quick' % pid,
                'thorough_cmd': './check %s --tier thorough' % pid,
                'evidence_file': 'evidence/%s.json' % pid,
                'replay_cmd_template': './check %s --replay {path}' % pid,
                'engine': 'coq-model+correspondence',
                'level_claimed': {'category': 'proof', 'text': text + '. Theorems are about the hand-written Gallina model; the model is tied to /repo on every run by executing the extracted model and the real crate on the same case scripts and comparing complete observations.', 'design_ref': 'DESIGN.md section ' + ref},
                'level_note': 'trusted: Coq kernel, extraction (ExtrOcamlBasic only), OCaml driver, Rust harness, Python comparator/generators, std float Display/FromStr; see DESIGN.md 2.7; theorems listed per property in coq/theories/props/%s.v with their Print Assumptions' % pid,
                'technique': 'machine-checked proof in Coq 8.16 about a Gallina model + differential correspondence check against the real crate',
            })
        else:
            na.append({'property_id': pid, 'reason': 'check under construction in this session (machinery for this property not yet registered); see DESIGN.md section ' + ref})
    m = {
        'version': 1,
        'setup_cmd': 'tools/setup.sh',
        'hooks': {
            'guard': 'phylotree_verif',
            'enable': 'RUSTFLAGS="--cfg phylotree_verif" (set in /verif/harness/.cargo/config.toml; the harness crate depends on /repo by path)',
            'baseline_off_cmd': 'cd /repo && cargo test --workspace --no-fail-fast --offline',
            'source_commits': [l.strip() for l in open(os.path.join(V, 'hooks_commits.txt'))] if os.path.exists(os.path.join(V, 'hooks_commits.txt')) else [],
            'add_only': True,
        },
        'engines': [{'name': 'coq-model+correspondence', 'path': 'check', 'serves_properties': [c['property_id'] for c in checks],
                     'kind_free_text': 'Coq 8.16 development (coq/), extracted OCaml model (ocaml/driver.ml), Rust harness (harness/), Python orchestration (tools/)'}],
        'checks': checks,
        'not_applicable': na,
        'notes': 'Entry point ./check <ID> --tier quick|thorough [--replay file]. Known findings in known_findings.json. DESIGN.md explains approach and trusted base.',
    }
    json.dump(m, open(os.path.join(V, 'MANIFEST.json'), 'w'), indent=1)
main()
