#!/usr/bin/env python3
"""writes /verif/MANIFEST.json from the table below and the set of property modules that exist"""
import json, os
V = '/verif'
INFO = {
 'C01': ('Newick write->parse round trip', 'THEOREMS (RoundTrip.v): for every arena representing a labelled tree with admissible labels (incl. removed slots, quoted labels, labels on the root, single nodes) writing then parsing returns exactly that labelled tree and the identical text again, under the visible premises H1/H2 on float Display/FromStr. CHECK: API-built / parsed / edited trees with all f64 classes; implementation-side bit-exact round-trip predicate', '4/C01', 'H1/H2 (std float printing/parsing) are premises, checked on every value used; empty-string labels excluded (known finding KF1)'),
 'C02': ('parser total + well-formed results', 'THEOREMS (ParserProps.v, NormalForm.v, NormalFormRefuted.v): for EVERY string no panic / no fuel exhaustion; an accepted text yields one rooted tree with preorder ids, exact depths, mirrored lengths; a terminating semicolon and balanced parentheses are necessary; under balanced label quotes the written form parses back to the same labelled tree and is written identically again. CHECK: exhaustive strings <= 5 (quick) / 6 (thorough) over the 12-symbol alphabet + Unicode fuzz + mutated Newick, arena-exact', '4/C02', 'H1/H2/Hok premises on std float printing/parsing for the normal-form clause'),
 'C03': ('arena invariants under edit histories', 'THEOREMS (RepLib.v, WFOps.v, Invariants.v): the invariant (one rooted tree, ids = positions, no reference to removed nodes, child-side = parent-side length, cached depth = distance to root; plus sorted child-edge keys and blank removed slots) holds for the empty arena, every parser / generator / UPGMA result and is preserved by every operation with every argument and every resolve choice list, hence by every history. CHECK: exhaustive depth-2/3 histories on all small start trees + random walks, full arena dump after every op', '4/C03', 'WF alone is not inductive for the model (machine-checked counterexample); WFS / Inv are the model-side invariants'),
 'C04': ('queries depend only on the tree', 'THEOREMS (HistoryIndep.v): caches stay coherent and never influence an answer; two arenas representing the same labelled tree answer every listed query alike (same_answers); the re-parsed arena is such an arena (C04_reparse); removed slots unobservable. CHECK: random edit/query interleavings, then re-parse and compare by canonical node position', '4/C04', 'the depth stored with a bipartition (observable only via compare_branch_lengths, not a query of this property) is history dependent and excluded'),
 'C05': ('bipartitions = non-trivial splits', 'THEOREMS (Splits.v): sound, complete, each split once, canonical side irrelevant; invariant under child reordering, unary nodes, root redrawing, injective renaming. CHECK: every shape <= 5/6 leaves x every name permutation x variants, random to 40/300 leaves, rename sequences', '4/C05', ''),
 'C06': ('Robinson-Foulds', 'THEOREMS (RF.v): RF = number of splits in exactly one tree + root correction of two exactly when both roots are two-child and the root splits differ; symmetric; rejects different leaf sets; zero on reordering; invariant under renaming; normalised pair; equals the report. CHECK: all shape pairs <= 5 leaves, random / NNI pairs, in-place renames', '4/C06', 'the quotient rf/total is formed by the comparator'),
 'C07': ('weighted RF / branch score', 'THEOREMS (RF.v): stored split length = sum over all inducing branches; wRF and KF^2 closed forms over the union of splits; symmetric; zero on reorder; linear scaling; missing-length error; report agreement; the branch listing partitions exactly the splits with their lengths (BranchListing.v). CHECK: exact dyadic lengths bit-for-bit + inexact stream 1e-9, refinement/star pairs, rescale sequences', '4/C07', 'sqrt outside the model; depth components of the branch listing not characterised'),
 'C08': ('distance matrices', 'THEOREMS (DistMatrix.v): both algorithms return, for every leaf pair, the path sum = get_distance; taxa sorted; the two agree; edge counts without lengths. CHECK: trees to 40/300 leaves, exact stream bit-for-bit, matrix-edit-matrix sequences', '4/C08', 'float summation order outside the theorems (exact stream / 1e-9)'),
 'C09': ('paths, LCA, distances', 'THEOREMS (Paths.v): root path, deepest common ancestor, edge count and length sum (None iff a length is missing), unique tree path, symmetry. CHECK: all ordered slot pairs, mixed / negative lengths', '4/C09', ''),
 'C10': ('traversals', 'THEOREMS (Traversals.v): every traversal/listing from every start node of an arena with removed slots equals the textbook traversal; in-order refusal; order facts. CHECK: every start id of exhaustive small shapes and edited random trees', '4/C10', ''),
 'C11': ('exact effect of edits', 'THEOREMS (Effects.v): prune / merge (and refusals) / rescale / compress / resolve (every choice list) / ladderize have exactly their documented effect; path lengths preserved or scaled. CHECK: every argument on small shapes, sequences, resolve under many seeds', '4/C11', 'algebraic laws on lengths are explicit hypotheses'),
 'C12': ('shape statistics', 'THEOREMS (Stats.v): leaf count, rooted, binary, cherries, Colless, Sackin (cached depths), refusals, total length, height, diameter equal their definitions on the represented tree. CHECK: all binary shapes <= 7/9 leaves, random, edited and UPGMA trees', '4/C12', 'Yule/PDA normalisations (ln, powf) applied by the comparator: partial'),
 'C13': ('triangular storage', 'THEOREMS (Tril.v, TrilN.v, TrilFloat.v): pair<->cell bijection for every n, get/set laws, iteration, to_map, first-min/max; the f64 inverse of the crate (primitive binary64 floats) equals the integer inverse for every index < 2^50. CHECK: all cells n <= 24/64, overwrites incl. zero, relabelling; float inverse vs integer inverse around every triangular number < 2^50 through the hook', '4/C13', 'float theorems depend on the stdlib specifications of primitive floats/ints + classical/Reals axioms (named in DESIGN.md); that Rust f64 ops are IEEE binary64 RNE is trusted and swept through the hook'),
 'C14': ('Phylip codec', 'THEOREMS (PhylipProps.v): round trip (2 layouts x 3 entry points) returns the original matrix; total on every text; strict rejections. CHECK: all f32/f64 classes, exhaustive short texts, mutated files', '4/C14', 'H1/H2/Hz/Heq premises on cell printing/parsing; KF2, KF3 known findings'),
 'C15': ('UPGMA', 'THEOREMS (UpgmaProps.v): rooted binary tree over exactly the taxa (any LenOps with a dominating marker); over Q: ultrametric, average-linkage invariant, monotone heights, non-negative lengths, agreement with definitional average linkage (unique when minima strict); ultrametric input: tips meet at their LCA at height cell/2 and get_distance returns the matrix entry (UpgmaUltra.v, with refuted examples for non-ultrametric input). CHECK: exhaustive small integer matrices, ties, zeros, > 64 taxa, ultrametric inputs', '4/C15', 'float rounding outside (KF4)'),
 'C16': ('output formats + Nexus', 'THEOREMS (Formats.v, FormatsRT.v, NexusProps.v): every format = full format of the erased arena, for every arena; the text of every format parses back to the same skeleton carrying exactly the retained labels and is written identically again; Nexus pieces = full Newick, live-tip count, live-tip names. CHECK: 9 formats x label mixtures, parse-back, Nexus after edits', '4/C16', 'the fixed Nexus template text around the pieces is compared by the check'),
 'C17': ('random generators', 'THEOREMS (Generators.v): for EVERY choice list: well formed, 2n-1 nodes, n leaves, rooted strictly binary, unique Tip_j names, lengths present/absent; caterpillar shape; n = 0 refused. CHECK: seeds via hook, choices read back and replayed on the model', '4/C17', 'distribution supports belong to rand_distr: checked on outputs'),
 'C18': ('CLI', 'THEOREMS (Cli.v model, CliProps.v): collapse changes exactly the lengths strictly below the threshold (tips excluded on request, root untouched); remove = prune* then compress: invariant kept, no unary node, named tips gone, remaining distances preserved; rescale; + the library theorems for the report subcommands. CHECK: the real binary on generated files (layouts, options), compared with the model as independent computation', '4/C18', 'process layer observed, not modelled'),
 'C19': ('radial layout', 'THEOREMS (LayoutProps.v): arena layout = spec layout; one segment per non-root node; direction = wedge middle; wedges disjoint / proportional / summing (Q turns); |segment| = length (R). CHECK: coordinates vs model angles at 1e-9, after merge/resolve', '4/C19', 'sin/cos/pi outside the model; two R-level lemmas use the Reals axioms'),
 'C20': ('errors not panics', 'THEOREMS (NoPanic.v, Invariants.v, NoPanicForest.v): every modelled function is safe (never Panic / OutOfFuel) on every reachable arena / consistent matrix and every argument, arenas holding several roots (Tree::add on a non-empty arena) included. CHECK: exhaustive cross product functions x degenerate classes incl. several roots, rename sequences; catch_unwind + crash + time limit', '4/C20', 'arenas that are not forests (not reachable through the API) and public-field writes: check only'),
}

def main():
    checks = []
    na = []
    for pid in sorted(INFO):
        title, text, ref, note = INFO[pid]
        if os.path.exists(os.path.join(V, 'tools/props', pid.lower() + '.py')):
            checks.append({
                'property_id': pid,
                'quick_cmd': './check %s --tier quick' % pid,
                'thorough_cmd': './check %s --tier thorough' % pid,
                'evidence_file': 'evidence/%s.json' % pid,
                'replay_cmd_template': './check %s --replay {path}' % pid,
                'engine': 'coq-model+correspondence',
                'level_claimed': {'category': 'proof', 'text': text + '. Theorems are about the hand-written Gallina model; the model is tied to /repo on every run by executing the extracted model (cross-checked by vm_compute) and the real crate on the same case scripts and comparing complete observations; a disagreement triggers a search for an input violating the property predicate on the implementation.', 'design_ref': 'DESIGN.md section ' + ref},
                'level_note': (note + '; ' if note else '') + 'trusted: Coq kernel, extraction (ExtrOcamlBasic only), OCaml driver, Rust harness, Python comparator/generators; statements in coq/theories/props/%s.v with Print Assumptions; see DESIGN.md (As built)' % pid,
                'technique': 'machine-checked proof in Coq 8.16 about a Gallina model + differential correspondence check against the real crate',
            })
        else:
            na.append({'property_id': pid, 'reason': 'check under construction in this session (machinery for this property not yet registered); see DESIGN.md section ' + ref})
    m = {
        'version': 1,
        'setup_cmd': 'tools/setup.sh',
        'hooks': {
            'guard': 'phylotree_verif',
            'enable': 'RUSTFLAGS="--cfg phylotree_verif" (set in /verif/harness/.cargo/config.toml; the harness crate depends on /repo by path)',
            'baseline_off_cmd': 'cd /repo && cargo test --workspace --no-fail-fast --offline',
            'source_commits': [l.strip() for l in open(os.path.join(V, 'hooks_commits.txt'))] if os.path.exists(os.path.join(V, 'hooks_commits.txt')) else [],
            'add_only': True,
        },
        'engines': [{'name': 'coq-model+correspondence', 'path': 'check', 'serves_properties': [c['property_id'] for c in checks],
                     'kind_free_text': 'Coq 8.16 development (coq/), extracted OCaml model (ocaml/driver.ml), Rust harness (harness/), Python orchestration (tools/)'}],
        'checks': checks,
        'not_applicable': na,
        'notes': 'Entry point ./check <ID> --tier quick|thorough [--replay file]. Known findings in known_findings.json. DESIGN.md explains approach and trusted base.',
    }
    json.dump(m, open(os.path.join(V, 'MANIFEST.json'), 'w'), indent=1)
main()
