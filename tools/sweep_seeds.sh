#!/bin/bash
# sweep_seeds.sh <seed>... : runs every quick check under each seed on the current tree; prints anything that is not a KNOWN-FINDING line
cd /verif
for s in "$@"; do
  for p in C01 C02 C03 C04 C05 C06 C07 C08 C09 C10 C11 C12 C13 C14 C15 C16 C17 C18 C19 C20; do
    out=$(VERIF_SEED=$s ./check $p 2>&1 | grep -v "^KNOWN-FINDING\|^WARNING" | head -3 | cut -c1-160)
    [ -n "$out" ] && echo "seed $s $p: $out"
  done
  echo "seed $s done"
done
