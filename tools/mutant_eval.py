#!/usr/bin/env python3
"""mutant_eval.py <patch.diff> [PID ...] : applies a seeded change to /repo, runs the quick checks (all, or the given ones),
prints which report a VIOLATION, and restores /repo.  Never leaves /repo modified."""
import sys, subprocess, os, json, time
patch = os.path.abspath(sys.argv[1])
pids = sys.argv[2:] or ['C%02d' % i for i in range(1, 21)]
def sh(c, **k):
    return subprocess.run(c, shell=True, capture_output=True, text=True, **k)
st = sh('git -C /repo status --porcelain --untracked-files=no').stdout.strip()
if st:
    print('refusing: /repo has local changes:\n' + st); sys.exit(2)
r = sh('git -C /repo apply %s' % patch)
if r.returncode != 0:
    print('patch does not apply:', r.stderr); sys.exit(2)
res = {}
try:
    for p in pids:
        t0 = time.time()
        r = sh('cd /verif && ./check %s --tier quick' % p, timeout=1800)
        lines = [l for l in r.stdout.split('\n') if l.startswith('VIOLATION') or l.startswith('KNOWN-FINDING')]
        res[p] = {'rc': r.returncode, 'lines': lines[:3], 's': round(time.time() - t0, 1)}
        print(p, 'rc=%d' % r.returncode, '%.0fs' % (time.time() - t0), (lines[0][:160] if lines else ''), flush=True)
finally:
    sh('git -C /repo checkout -- .')
    st = sh('git -C /repo status --porcelain --untracked-files=no').stdout.strip()
    print('repo restored:', 'clean' if not st else st)
caught = [p for p in pids if res.get(p, {}).get('rc') == 1]
print('CAUGHT_BY', ' '.join(caught) if caught else 'none')
json.dump(res, open('/verif/build/last_mutant_eval.json', 'w'), indent=1)
