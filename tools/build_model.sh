#!/bin/bash
# Builds the Coq development (full .vo build), extracts the model and compiles the OCaml driver.
set -e
cd /verif/coq
[ -f Makefile ] || coq_makefile -f _CoqProject -o Makefile >/dev/null
timeout 3000 make -j16 >/verif/build/coq_make.log 2>&1 || { tail -30 /verif/build/coq_make.log; echo "COQ BUILD FAILED"; exit 2; }
mkdir -p /verif/build/ocaml
cd /verif/build/ocaml
if [ ! -f pt_model ] || [ /verif/coq/theories/Script.vo -nt pt_model ] || [ /verif/ocaml/driver.ml -nt pt_model ] || [ /verif/coq/theories/Extract.v -nt pt_model ]; then
  timeout 600 coqc -Q /verif/coq/theories PT -o /verif/build/ocaml/Extract.vo /verif/coq/theories/Extract.v >/dev/null
  cp /verif/ocaml/driver.ml .
  ocamlfind ocamlopt -O2 -w -a model.mli model.ml driver.ml -o pt_model 2>&1 | grep -v "^$" || true
  [ -f pt_model ] || { echo "OCAML BUILD FAILED"; exit 2; }
fi
