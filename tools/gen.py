#!/usr/bin/env python3
"""gen.py - input generators: tree shapes, labels, lengths, Newick text, construction scripts."""
import random, itertools, math, struct
from fractions import Fraction
import vf

class T:
    __slots__ = ('name', 'length', 'comment', 'children')
    def __init__(self, name=None, length=None, comment=None, children=None):
        self.name = name; self.length = length; self.comment = comment
        self.children = children or []
    def is_leaf(self):
        return not self.children
    def leaves(self):
        if not self.children:
            return [self]
        out = []
        for c in self.children:
            out += c.leaves()
        return out
    def nodes(self):
        out = [self]
        for c in self.children:
            out += c.nodes()
        return out
    def copy(self):
        return T(self.name, self.length, self.comment, [c.copy() for c in self.children])

# ---- lengths -----------------------------------------------------------------------------------------
def exact_len(rng, zero_ok=True):
    """k / 2^s : sums, differences, products and squares of a few hundred of these stay exact in binary64"""
    s = rng.choice([0, 1, 2, 3, 4])
    k = rng.randint(0 if zero_ok else 1, 40)
    return k / (2 ** s)

SPECIAL_F64 = [0.0, -0.0, 5e-324, 2.2250738585072014e-308, 1.7976931348623157e308, 1e300, -1e300, math.inf, -math.inf,
               0.1, 0.2, 0.30000000000000004, 1 / 3, 123456.789, 1e-7, 1e21, 1e22, 9007199254740993.0, -2.5, 1.0, 2.0 ** 60,
               2.0 ** -60, 4.35, 0.000244140625, 6.103515625e-05]

def wild_len(rng, nonneg=True, finite=True):
    r = rng.random()
    if r < 0.5:
        x = rng.uniform(0, 10)
    elif r < 0.8:
        e = rng.randint(-40, 40)
        x = rng.random() * 10.0 ** e
    else:
        bits = rng.getrandbits(64)
        x = vf.bits_f64(bits)
        if math.isnan(x):
            x = 1.5
    if finite and math.isinf(x):
        x = 3.25
    if nonneg:
        x = abs(x)
    return x

def moderate_len(rng):
    """arbitrary (inexact) non-negative finite floats of moderate magnitude"""
    if rng.random() < 0.6:
        return rng.uniform(0, 10)
    return rng.random() * 10.0 ** rng.randint(-6, 6)

def fmt_float(x):
    """a decimal text Rust parses to exactly x"""
    if math.isinf(x):
        return 'inf' if x > 0 else '-inf'
    return repr(x)

def rust_display(x):
    """Rust's `{}` for f64: shortest round-trip digits, never exponent notation"""
    if math.isnan(x):
        return 'NaN'
    if math.isinf(x):
        return 'inf' if x > 0 else '-inf'
    r = repr(x)
    neg = r.startswith('-')
    if neg:
        r = r[1:]
    if 'e' in r or 'E' in r:
        mant, exp = r.lower().split('e')
        exp = int(exp)
        if '.' in mant:
            ip, fp = mant.split('.')
        else:
            ip, fp = mant, ''
        digits = ip + fp
        point = len(ip) + exp
        if point <= 0:
            s = '0.' + '0' * (-point) + digits
        elif point >= len(digits):
            s = digits + '0' * (point - len(digits))
        else:
            s = digits[:point] + '.' + digits[point:]
    else:
        s = r
    if '.' in s:
        s = s.rstrip('0').rstrip('.')
    if s == '':
        s = '0'
    return ('-' if neg else '') + s

# ---- shapes --------------------------------------------------------------------------------------------
def rand_shape(rng, n_leaves, p_multi=0.3, p_unary=0.0):
    """random rooted tree with n_leaves leaves, by recursive splitting"""
    def build(n):
        if n == 1:
            t = T()
        else:
            k = 2
            if rng.random() < p_multi:
                k = rng.randint(3, min(n, 6)) if n >= 3 else 2
            # split n into k positive parts
            cuts = sorted(rng.sample(range(1, n), k - 1))
            parts = [b - a for a, b in zip([0] + cuts, cuts + [n])]
            t = T(children=[build(p) for p in parts])
        while rng.random() < p_unary:
            t = T(children=[t])
        return t
    return build(n_leaves)

def all_shapes(n_leaves, memo={}):
    """all ordered rooted trees without unary nodes having n_leaves leaves (little Schroeder numbers)"""
    if n_leaves in memo:
        return memo[n_leaves]
    if n_leaves == 1:
        res = [T()]
    else:
        res = []
        def comps(n, kmin):
            # compositions of n into >= kmin parts
            if kmin <= 1:
                yield (n,)
            for first in range(1, n):
                for rest in comps(n - first, max(1, kmin - 1)):
                    if 1 + len(rest) >= kmin:
                        yield (first,) + rest
        seen = set()
        for comp in comps(n_leaves, 2):
            if comp in seen or len(comp) < 2:
                continue
            seen.add(comp)
            for combo in itertools.product(*[all_shapes(p) for p in comp]):
                res.append(T(children=[c.copy() for c in combo]))
    memo[n_leaves] = res
    return res

def name_leaves(t, names):
    for l, n in zip(t.leaves(), names):
        l.name = n
    return t

LETTERS = 'ABCDEFGHIJKLMNOPQRSTUVWXYZ'
def default_names(n, style=0):
    if style == 0 and n <= 26:
        return list(LETTERS[:n])
    if style == 1:
        return ['Tip_%d' % i for i in range(n)]
    return ['t%d' % i for i in range(n)]

def assign_lengths(t, rng, mode='exact', root_len=False, p_missing=0.0, zero_ok=True):
    for i, nd in enumerate(t.nodes()):
        if i == 0 and not root_len:
            nd.length = None
            continue
        if rng.random() < p_missing:
            nd.length = None
        elif mode == 'exact':
            nd.length = exact_len(rng, zero_ok)
        elif mode == 'wild':
            nd.length = wild_len(rng)
        elif mode == 'mod':
            nd.length = moderate_len(rng)
        elif mode == 'ones':
            nd.length = 1.0
        else:
            nd.length = None
    return t

def name_internals(t, rng, p=0.5, p_collide=0.0):
    """names for internal nodes; with probability p_collide an internal node takes the name of some LEAF (legal: only leaf names
    must be unique) — e.g. a support value equal to a numeric taxon name"""
    k = 0
    leafnames = [l.name for l in t.leaves() if l.name]
    for nd in t.nodes():
        if nd.children and rng.random() < p:
            if leafnames and rng.random() < p_collide:
                nd.name = rng.choice(leafnames)
            else:
                nd.name = 'n%d' % k
                k += 1
    return t

# ---- rendering -------------------------------------------------------------------------------------------
def to_newick(t):
    def go(n):
        s = ''
        if n.children:
            s += '(' + ','.join(go(c) for c in n.children) + ')'
        if n.name is not None:
            s += n.name
        if n.length is not None:
            s += ':' + fmt_float(n.length)
        if n.comment is not None:
            s += '[' + n.comment + ']'
        return s
    return go(t) + ';'

def parse_op(text):
    return 'parse ' + vf.enc_str(text)

def build_ops(t):
    """construction through the public API: add / add_child in preorder; returns ops"""
    ops = []
    counter = [0]
    def go(n, parent):
        my = counter[0]; counter[0] += 1
        if parent is None:
            ops.append('add %s %s' % (vf.enc_ostr(n.name), vf.enc_ostr(n.comment)))
        else:
            ops.append('add_child %d %s %s %s' % (parent, vf.enc_ostr(n.name), vf.enc_len(n.length), vf.enc_ostr(n.comment)))
        for c in n.children:
            go(c, my)
    go(t, None)
    return ops

def rand_tree(rng, n_leaves, lengths='exact', p_multi=0.3, p_unary=0.0, internal_names=0.5, names=None, root_len=False, p_missing=0.0, collide=0.0):
    t = rand_shape(rng, n_leaves, p_multi, p_unary)
    nm = names or default_names(n_leaves, 0 if n_leaves <= 26 else 2)
    nm = list(nm)
    rng.shuffle(nm)
    name_leaves(t, nm)
    name_internals(t, rng, internal_names, collide)
    assign_lengths(t, rng, lengths, root_len, p_missing)
    return t

ALL_QUERIES_NODE = ['preorder', 'postorder', 'inorder', 'levelorder', 'subtree', 'descendants', 'subtree_leaves', 'path']
