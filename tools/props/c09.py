"""C09 - paths, common ancestors and node-to-node distances are exact"""
from fractions import Fraction
import vf, gen
from vf import Case
from checklib import PropCheck
from props.common import dump_of
from props.c10 import edit_prefix

class Check(PropCheck):
    pid = 'C09'
    pure_predicate = True
    tol = None
    rule = ('every ordered pair of slots (leaves, internal nodes, ancestor/descendant pairs, identical, removed, out of range) of '
            'exhaustive small shapes and random trees with every mixture of present/absent dyadic lengths (bit-exact comparison), '
            'also after edits; non-trivial: tree has >= 3 live nodes; distinct by op-list hash')

    def gen_cases(self):
        rng = self.rng
        cases = []
        trees = []
        maxn = 4 if self.tier == 'quick' else 5
        for n in range(1, maxn + 1):
            for sh in gen.all_shapes(n):
                for pm in (0.0, 0.4):
                    t = sh.copy(); gen.name_leaves(t, gen.default_names(n))
                    gen.assign_lengths(t, rng, 'exact', root_len=rng.random() < 0.3, p_missing=pm)
                    trees.append(([gen.parse_op(gen.to_newick(t))], len(t.nodes()) + 1))
        nr = 60 if self.tier == 'quick' else 1500
        for k in range(nr):
            n = rng.randint(2, 14 if self.tier == 'quick' else 40)
            t = gen.rand_tree(rng, n, 'exact', p_multi=rng.choice([0, 0.3, 0.6]), p_unary=rng.choice([0, 0.2]),
                              p_missing=rng.choice([0, 0, 0.15, 0.5]), root_len=rng.random() < 0.2)
            ops = [gen.parse_op(gen.to_newick(t))] if rng.random() < 0.7 else ['new'] + gen.build_ops(t)
            if rng.random() < 0.3:
                for nd in t.nodes():
                    if nd.length is not None and rng.random() < 0.3:
                        nd.length = -nd.length
                ops = [gen.parse_op(gen.to_newick(t))]
            if rng.random() < 0.12:
                # infinite / NaN lengths: present but not finite (a sum may be NaN: still PRESENT, not absent)
                for nd in t.nodes():
                    if nd.length is not None and rng.random() < 0.35:
                        nd.length = rng.choice([float('inf'), float('-inf'), float('nan')])
                ops = [gen.parse_op(gen.to_newick(t))]
            ne = rng.randint(0, 4)
            ops += edit_prefix(rng, ne)
            if rng.random() < 0.15:
                # a length written through the public field of the child only
                ops += ['pick nonroot %d' % rng.randint(0, 10 ** 6), 'set_pedge $0 ' + vf.enc_len(gen.exact_len(rng))]
            trees.append((ops, len(t.nodes()) + ne + 1))
        # arenas holding several components (Tree::add called twice): nodes of different components have no common ancestor; the queries
        # must answer (an error) rather than panic, and inside each component everything stays exact
        S = vf.enc_str; Ln = vf.enc_len
        trees.append((['new', 'add %s -' % S('A'), 'add %s -' % S('B')], 3))
        trees.append((['new', 'add - -', 'add - -', 'add_child 0 %s %s -' % (S('A'), Ln(1.0)), 'add_child 1 %s %s -' % (S('B'), Ln(2.0)),
                       'add_child 1 %s - -' % S('C'), 'add_child 2 %s %s -' % (S('D'), Ln(0.5))], 8))
        trees.append(([gen.parse_op('((A:1,B:2):1,C:3);'), 'add %s -' % S('Z'), 'add_child 5 %s %s -' % (S('Y'), Ln(1.5))], 8))
        self.stats['trees'] = len(trees)
        for k, (ops, bound) in enumerate(trees):
            q = ['dump']
            for i in range(bound):
                q.append('path %d' % i)
            for i in range(bound):
                for j in range(bound):
                    q.append('lca %d %d' % (i, j))
                    q.append('dist %d %d' % (i, j))
            cases.append(Case('t%d' % k, ops + q))
        return cases

    def nontrivial(self, case, il):
        for o, l in zip(case.ops, il):
            if o == 'dump':
                nodes = dump_of(l)
                return nodes is not None and sum(1 for n in nodes if n is not None) >= 3
        return False

    def predicate(self, case, il):
        bad = []
        nodes = None
        for i, (o, l) in enumerate(zip(case.ops, il)):
            a = o.split()
            if o == 'dump':
                nodes = dump_of(l); continue
            if nodes is None or a[0] not in ('path', 'lca', 'dist'):
                continue
            if l[0] in ('panic', 'crash', 'hang'):
                bad.append((i, o + ' -> ' + l[0])); break
            xs = [int(v) for v in a[1:]]
            if any(x >= len(nodes) or nodes[x] is None for x in xs):
                continue      # the property speaks about nodes of the tree only (unknown ids: C20)
            def anc(v):
                out = [v]
                while nodes[v]['parent'] is not None:
                    v = nodes[v]['parent']; out.append(v)
                return out[::-1]
            if a[0] == 'path':
                got = [int(v) for v in l[2:-1]] if l[0] == 'ok' else None
                if got != anc(xs[0]):
                    bad.append((i, 'root path of %d: got %s' % (xs[0], got))); break
                continue
            pa, pb = anc(xs[0]), anc(xs[1])
            k = 0
            while k < len(pa) and k < len(pb) and pa[k] == pb[k]:
                k += 1
            if k == 0:
                continue        # different components: not a tree (C20's domain)
            if a[0] == 'lca':
                if l[0] != 'ok' or int(l[1]) != pa[k - 1]:
                    bad.append((i, 'lca(%d,%d): got %s expected %d' % (xs[0], xs[1], l[1:], pa[k - 1]))); break
            else:
                tail = pa[k:] + pb[k:]
                cnt = len(tail)
                tot = Fraction(0); missing = False
                for v in tail:
                    pe = nodes[v]['pe']
                    if pe == '-':
                        missing = True
                    else:
                        n = vf.decode_num(pe)
                        if not n.finite():
                            missing = None; break
                        tot += n.v
                if missing is None:
                    continue
                if l[0] != 'ok' or int(l[2]) != cnt:
                    bad.append((i, 'dist(%d,%d): edge count %s expected %d' % (xs[0], xs[1], l[1:], cnt))); break
                if missing:
                    if l[1] != '-':
                        bad.append((i, 'dist(%d,%d): a length is missing on the path but a sum was reported' % (xs[0], xs[1]))); break
                else:
                    got = vf.decode_num(l[1]) if l[1] != '-' else None
                    if got is None or not got.finite() or got.v != tot:
                        bad.append((i, 'dist(%d,%d): length %s expected %s' % (xs[0], xs[1], l[1], tot))); break
        return bad
