"""C03 - arena stays one consistent rooted tree under every edit history"""
import vf, gen
from vf import Case
from checklib import PropCheck
from props.common import wf_check, dump_of, MUTATORS, start_trees

L1 = vf.enc_len(1.0); L2 = vf.enc_len(0.5)

def actions(size, rng):
    """every op of the quantifier with every argument for an arena of `size` slots"""
    acts = []
    for i in range(size + 2):
        acts.append(['prune %d' % i])
        acts.append(['add_child %d %s %s -' % (i, vf.enc_str('new'), L1)])
    acts.append(['compress'])
    acts.append(['size', 'resolve %d' % rng.randint(0, 10 ** 6)])
    acts.append(['size', 'resolve %d' % rng.randint(0, 10 ** 6)])
    acts.append(['ladderize'])
    acts.append(['rescale ' + vf.enc_len(2.0)])
    acts.append(['rescale ' + vf.enc_len(-0.5)])
    acts.append(['reset_depths'])
    for a in range(size + 1):
        for b in range(size + 1):
            e1 = L1 if (a + 2 * b) % 3 else '-'
            e2 = L2 if (2 * a + b) % 3 else '-'
            acts.append(['merge %d %d %s %s %s %s' % (a, b, e1, e2, L2 if (a + b) % 2 else '-', vf.enc_str('m') if (a * b) % 2 else '-')])
    return acts

class Check(PropCheck):
    pid = 'C03'
    pure_predicate = True
    tol = None
    rule = ('exhaustive edit histories (every op x every argument incl. out-of-range / removed / equal ids) to depth 2 '
            '(quick) / 3 (thorough) from every small start tree (parsed, API-built, generated, UPGMA), plus random walks with '
            'selector-resolved arguments on larger trees; full arena dump compared after every op; a case is non-trivial '
            'when at least one structural edit in it succeeds; distinct by op-list hash')

    def gen_cases(self):
        rng = self.rng
        cases = []
        starts = start_trees(rng, self.tier)
        depth = 2 if self.tier == 'quick' else 3
        self.stats['start_trees'] = len(starts)
        budget = 9000 if self.tier == 'quick' else 400000
        # size of each start tree is not known here: take a bound from the op count
        for si, (label, sops) in enumerate(starts):
            size_guess = max(2, sum(1 for o in sops if o.startswith('add')) or 0)
            if sops[0].startswith('parse'):
                txt = vf.dec_str(sops[0].split()[1])
                size_guess = txt.count(',') + txt.count('(') + 1
            if label.startswith('gen') or label.startswith('upgma'):
                size_guess = 7 if label.startswith('upgma') else 5
            a1 = actions(size_guess, rng)
            if depth == 2 or size_guess > 5:
                per = max(1, budget // (len(starts) * len(a1)))
                for i, x in enumerate(a1):
                    a2 = actions(size_guess + 1, rng)
                    if len(a2) > per:
                        a2 = rng.sample(a2, per)
                    for j, y in enumerate(a2):
                        ops = sops + ['dump'] + x + ['dump'] + y + ['dump', 'reset_depths', 'dump']
                        cases.append(Case('h_%d_%d_%d' % (si, i, j), ops))
            else:
                per = max(1, budget // (len(starts) * len(a1) * 8))
                for i, x in enumerate(a1):
                    A2 = actions(size_guess + 1, rng)
                    a2 = rng.sample(A2, min(8, len(A2)))
                    for j, y in enumerate(a2):
                        A3 = actions(size_guess + 2, rng)
                        a3 = rng.sample(A3, min(per, len(A3)))
                        for k, z in enumerate(a3):
                            ops = sops + ['dump'] + x + ['dump'] + y + ['dump'] + z + ['dump']
                            cases.append(Case('h_%d_%d_%d_%d' % (si, i, j, k), ops))
        self.stats['exhaustive_histories'] = len(cases)
        # random walks
        nwalk = 40 if self.tier == 'quick' else 600
        for w in range(nwalk):
            n = rng.randint(5, 30) if self.tier == 'quick' else rng.randint(5, 120)
            kind = rng.random()
            if kind < 0.5:
                t = gen.rand_tree(rng, n, rng.choice(['exact', 'none', 'exact']), p_multi=0.4, p_unary=0.15, p_missing=rng.choice([0, 0, 0.2]))
                ops = [gen.parse_op(gen.to_newick(t))]
            elif kind < 0.7:
                t = gen.rand_tree(rng, n, 'exact', p_multi=0.4, p_unary=0.15)
                ops = ['new'] + gen.build_ops(t)
            elif kind < 0.85:
                ops = ['gen %s %d %d uniform %d' % (rng.choice(['yule', 'caterpillar', 'ete3']), n, rng.randint(0, 1), rng.randint(0, 10 ** 6))]
            else:
                k = rng.randint(2, 9)
                names = ['t%d' % i for i in range(k)]
                vals = [vf.enc_len(float(rng.randint(1, 40))) for _ in range(k * (k - 1) // 2)]
                ops = ['m_new %d %s %s' % (k, ' '.join(vf.enc_str(x) for x in names), ' '.join(vals)), 'upgma']
            ops.append('dump')
            steps = 30 if self.tier == 'quick' else rng.randint(30, 200)
            for s in range(steps):
                r = rng.random()
                big = rng.randint(0, 10 ** 6)
                if r < 0.2:
                    ops += ['pick %s %d' % (rng.choice(['nonroot', 'nonroot', 'leaf', 'any']), big), 'prune $0']
                elif r < 0.4:
                    ops += ['pick %s %d' % (rng.choice(['live', 'live', 'any']), big), 'add_child $0 %s %s -' % (vf.enc_str('x%d' % s), vf.enc_len(gen.exact_len(rng)) if rng.random() < 0.7 else '-')]
                elif r < 0.5:
                    ops += ['compress']
                elif r < 0.6:
                    ops += ['size', 'resolve %d' % big]
                elif r < 0.68:
                    ops += ['ladderize']
                elif r < 0.76:
                    ops += ['rescale ' + vf.enc_len(rng.choice([2.0, 0.5, 0.25, 4.0, -1.0]))]
                elif r < 0.95:
                    if rng.random() < 0.8:
                        def ol():
                            return vf.enc_len(gen.exact_len(rng)) if rng.random() < 0.6 else '-'
                        ops += ['pick sibpair %d' % big, 'merge $0 $1 %s %s %s -' % (ol(), ol(), ol())]
                    else:
                        ops += ['pick live %d' % big, 'merge $0 $0 - - - -']
                elif r < 0.975:
                    ops += ['reset_depths']
                else:
                    ops += ['pick live %d' % big, 'set_name $0 %s' % vf.enc_str('r%d' % s)]
                ops.append('dump')
            cases.append(Case('walk_%d' % w, ops))
        self.stats['random_walks'] = nwalk
        return cases

    def case_tol(self, case):
        # generated trees carry arbitrary f64 lengths: sums round, compare at 1e-12; everything else bit-exact
        return 1e-12 if any(o.startswith('gen ') or o == 'upgma' for o in case.ops) else None

    def nontrivial(self, case, il):
        for o, l in zip(case.ops, il):
            if o.split()[0] in MUTATORS and l and l[0] == 'ok':
                return True
        return False

    def predicate(self, case, il):
        bad = []
        for i, (o, l) in enumerate(zip(case.ops, il)):
            if o == 'dump':
                nodes = dump_of(l)
                if nodes is None:
                    continue
                w = wf_check(nodes)
                if w:
                    bad.append((i, 'arena not well formed: ' + '; '.join(w[:3])))
                    break
            elif l and l[0] in ('panic', 'crash', 'hang'):
                bad.append((i, 'operation ' + l[0]))
                break
        return bad
