"""C20 - failures are reported as errors, never as panics or hangs"""
import vf, gen
from vf import Case
from checklib import PropCheck

S = vf.enc_str
L = vf.enc_len

def tree_classes():
    """(label, ops building a degenerate value in register 0)"""
    c = []
    c.append(('empty', ['new']))
    c.append(('single', ['new', 'add - -']))
    c.append(('single_named', ['new', 'add %s -' % S('A')]))
    c.append(('two_roots', ['new', 'add %s -' % S('A'), 'add %s -' % S('B')]))
    c.append(('two_roots_children', ['new', 'add - -', 'add - -', 'add_child 0 %s %s -' % (S('A'), L(1.0)), 'add_child 1 %s %s -' % (S('B'), L(2.0)), 'add_child 1 %s - -' % S('C')]))
    c.append(('all_tombstones', ['new', 'add - -', 'add_child 0 %s - -' % S('A'), 'prune 0']))
    c.append(('root_pruned_forest', [gen.parse_op('((A,B)C,(D,E)F)G;'), 'prune 1']))
    c.append(('unnamed_leaves', [gen.parse_op('((,),(A,));')]))
    c.append(('duplicate_names', [gen.parse_op('((A:1,A:1):1,(B:1,A:1):1);')]))
    c.append(('duplicate_last', [gen.parse_op('((A:1,B:1):1,(C:1,C:1):1);')]))
    c.append(('duplicate_pair', [gen.parse_op('(A:1,A:2);')]))
    c.append(('early_pruned', [gen.parse_op('((A:1,B:1)C:1,(D:1,E:1)F:1)G;'), 'prune 1']))
    c.append(('missing_lengths', [gen.parse_op('((A,B),(C,D));')]))
    c.append(('mixed_lengths', [gen.parse_op('((A:1,B):1,(C,D:2));')]))
    c.append(('polytomy', [gen.parse_op('(A:1,B:1,C:1,D:1,E:1);')]))
    c.append(('unrooted', [gen.parse_op('((A:1,B:1):1,C:1,(D:1,E:1):1);')]))
    c.append(('unary_root', [gen.parse_op('((A:1,B:1):1);')]))
    c.append(('unary_chain', [gen.parse_op('(((A:1):1):1);')]))
    c.append(('two_leaves', [gen.parse_op('(A:1,B:2);')]))
    c.append(('normal', [gen.parse_op('((A:1,B:2):0.5,(C:1,D:1):0.25);')]))
    c.append(('after_edits', [gen.parse_op('((A:1,B:2)X:0.5,(C:1,(D:1,E:1)Y:1)Z:0.25)R;'), 'prune 2', 'compress', 'merge 4 7 - - - -', 'prune 6']))
    c.append(('nan_inf_lengths', [gen.parse_op('((A:nan,B:inf):-inf,(C:1e300,D:-0):0);')]))
    c.append(('gen0', ['gen yule 0 1 uniform 1', 'dump']))
    c.append(('gen1', ['gen ete3 1 1 gamma 1', 'dump']))
    c.append(('gen1c', ['gen caterpillar 1 0 uniform 1', 'dump']))
    c.append(('gen0c', ['gen caterpillar 0 1 exponential 1', 'dump']))
    c.append(('gen1y', ['gen yule 1 1 uniform 3', 'dump']))
    c.append(('gen0e', ['gen ete3 0 0 uniform 3', 'dump']))
    c.append(('gen2y', ['gen yule 2 1 gamma 3', 'dump']))
    c.append(('gen3c', ['gen caterpillar 3 1 uniform 3', 'dump']))
    return c

def queries(bound):
    q = ['size', 'n_leaves', 'get_root', 'get_leaves', 'get_leaf_names', 'is_binary', 'is_rooted', 'unique_tips', 'height', 'diameter',
         'length', 'cherries', 'colless', 'sackin', 'colless_yule', 'colless_pda', 'sackin_yule', 'sackin_pda', 'partitions', 'dm', 'dmr',
         'to_newick', 'to_nexus', 'layout', 'rt_newick', 'search unnamed', 'search tip', 'search all', 'search name %s' % S('A'),
         'get_by_name %s' % S('A'), 'get_by_name %s' % S('zz'), 'p2l b', 'p2l b10101010', 'p2l b1', 'reset_cache', 'partitions', 'dm', 'dump']
    for k in range(9):
        q.append('to_fmt %d' % k)
    ids = list(range(0, bound + 1)) + [bound + 7]
    for i in ids:
        for op in ('preorder', 'postorder', 'inorder', 'levelorder', 'subtree', 'descendants', 'subtree_leaves', 'path', 'get'):
            q.append('%s %d' % (op, i))
    for i in ids:
        for j in ids:
            q.append('lca %d %d' % (i, j)); q.append('dist %d %d' % (i, j))
    return q

def mutators(bound):
    m = ['compress', 'size\nresolve 5', 'ladderize', 'rescale ' + L(2.0), 'rescale ' + L(float('nan')), 'reset_depths']
    ids = list(range(0, bound + 1)) + [bound + 7]
    for i in ids:
        m.append('prune %d' % i)
        m.append('add_child %d %s %s -' % (i, S('n'), L(1.0)))
        for j in ids:
            m.append('merge %d %d %s - - -' % (i, j, L(1.0)))
    return m

MATS = [
    ('m0', 'm_new 0'),
    ('m1', 'm_new 1 %s' % S('A')),
    ('m2', 'm_new 2 %s %s %s' % (S('A'), S('B'), L(1.0))),
    ('m2nan', 'm_new 2 %s %s %s' % (S('A'), S('B'), L(float('nan')))),
    ('m3inf', 'm_new 3 %s %s %s %s %s %s' % (S('A'), S('B'), S('C'), L(float('inf')), L(1.0), L(float('inf')))),
    ('m3dup', 'm_new 3 %s %s %s %s %s %s' % (S('A'), S('A'), S('B'), L(1.0), L(2.0), L(3.0))),
    ('m3neg', 'm_new 3 %s %s %s %s %s %s' % (S('A'), S('B'), S('C'), L(-1.0), L(0.0), L(-0.0))),
    ('ws0', 'm_with_size 0'), ('ws1', 'm_with_size 1\nm_set_taxa %s' % S('A')), ('ws3', 'm_with_size 3\nm_set_taxa %s %s %s' % (S('A'), S('B'), S('C'))),
]
MAT_OPS = ['m_dump', 'm_iter', 'm_indexed', 'm_to_map', 'm_min', 'm_max', 'm_phylip 1', 'm_phylip 0', 'm_rt strict 1', 'm_rt strict 0', 'm_rt tril 0',
           'm_get %s %s' % (S('A'), S('B')), 'm_get %s %s' % (S('A'), S('A')), 'm_get %s %s' % (S('Q'), S('A')), 'm_set %s %s %s' % (S('A'), S('B'), L(2.0)),
           'm_set %s %s %s' % (S('A'), S('A'), L(2.0)), 'm_set %s %s %s' % (S('A'), S('Z'), L(2.0)), 'm_taxa_index %s' % S('B'),
           'm_set_taxa %s %s' % (S('X'), S('Y')), 'm_set_taxa', 'upgma', 'dump', 'to_newick', 'sackin',
           'm_from_strict %s 1' % S('0\n'), 'm_from_strict %s 0' % S('0\n'), 'm_from_tril %s' % S('0\n'), 'm_from_tril %s' % S('1\nA\n'),
           'm_from_strict %s 1' % S('2\nA 0 1\nB 1 0\nC 1 1\n'), 'm_from_strict %s 1' % S('2\nA 0 1 9 9\nB 1 0 7\n'), 'm_from_tril %s' % S(''),
           'm_from_strict %s 1' % S('\n'), 'm_from_strict %s 0' % S('1\nA 5\n')]

class Check(PropCheck):
    pid = 'C20'
    pure_predicate = True
    tol = 1e-9
    release_too = True
    timeout = 15          # every shard finishes in a second or two; anything longer is a hang
    rule = ('EXHAUSTIVE cross product for the declared classes: every public function of Tree (all queries, traversals from every id incl. '
            'removed / out of range, all ordered id pairs for lca / distance / merge, every mutator), DistanceMatrix (all accessors, codec, '
            'UPGMA) and the generators x every class of degenerate value (empty, single node, several roots, all-removed arena, unnamed / '
            'duplicate names, missing / mixed / NaN / infinite lengths, polytomy, unrooted, unary root, edited trees with removed slots, '
            'matrices of size 0-3 with NaN / inf / duplicate names, n = 0, 1); each call under catch_unwind, process crash and timeout '
            'observed; debug profile (overflow checks on), release profile too in the thorough tier; non-trivial: every case; distinct by op list')

    def gen_cases(self):
        cases = []
        k = 0
        classes = tree_classes()
        for label, ops in classes:
            bound = 9
            qs = queries(bound)
            # chunk the queries so that one crash does not hide the rest
            for ci in range(0, len(qs), 60):
                cases.append(Case('%s_q%d' % (label, ci // 60), ops + qs[ci:ci + 60], {'cls': label})); k += 1
            ms = mutators(8)
            for mi, m in enumerate(ms):
                # each mutator on a fresh copy, followed by a few queries and a second mutator
                cases.append(Case('%s_m%d' % (label, mi), ops + m.split('\n') + ['dump', 'to_newick', 'n_leaves', 'partitions', 'dm', 'compress', 'dump'], {'cls': label})); k += 1
                # the same mutator (successful or refused) followed by the functions that walk the whole arena or index scratch buffers by id
                cases.append(Case('%s_n%d' % (label, mi), ops + m.split('\n') + ['dump', 'height', 'diameter', 'length', 'colless', 'sackin', 'cherries', 'dmr', 'layout',
                                  'get_leaves', 'get_leaf_names', 'to_nexus', 'ladderize', 'dump', 'height', 'size', 'resolve 3', 'dump', 'diameter', 'dm'], {'cls': label})); k += 1
        # pairs of trees for the comparison functions
        for la, oa in classes:
            for lb, ob in classes:
                ops = ['sel 0'] + oa + ['sel 1'] + ob + ['sel 0', 'rf 1', 'rf_norm 1', 'wrf 1', 'kf 1', 'cmp_topo 1', 'cmp_branch 1 0', 'cmp_branch 1 1', 'rf 0', 'cmp_branch 0 1']
                cases.append(Case('pair_%s_%s' % (la, lb), ops, {'cls': 'pair'})); k += 1
        # cache-filling query, in-place rename through get_by_name_mut / get_mut to a name outside the cached index, comparison again
        for label, ops0 in classes:
            for how in ('rename_by_name %s %s' % (S('A'), S('ZZ')), 'set_name 1 %s' % S('YY'), 'rename_by_name %s %s' % (S('B'), S('A'))):
                ops = ['sel 1', gen.parse_op('((A:1,B:2):0.5,(C:1,D:1):0.25);'), 'sel 0'] + ops0 + ['partitions', 'rf 1', how, 'partitions', 'rf 1', 'rf_norm 1',
                       'cmp_topo 1', 'wrf 1', 'cmp_branch 1 1', 'dm', 'dmr', 'sel 1', 'rf 0', 'cmp_topo 0']
                cases.append(Case('ren_%s_%d' % (label, len(cases)), ops, {'cls': 'rename'})); k += 1
        for label, op in MATS:
            for oi in range(0, len(MAT_OPS), 12):
                cases.append(Case('%s_%d' % (label, oi // 12), op.split('\n') + MAT_OPS[oi:oi + 12], {'cls': label})); k += 1
            for o in MAT_OPS:
                cases.append(Case('%s_single_%d' % (label, MAT_OPS.index(o)), op.split('\n') + [o, 'm_dump'], {'cls': label}))
        self.stats['classes'] = len(classes) + len(MATS)
        self.stats['exhaustive'] = True
        return cases

    def nontrivial(self, case, il):
        return True

    def run(self, replay=None):
        rc = super().run(replay)
        return rc

    def predicate(self, case, il):
        for i, (o, l) in enumerate(zip(case.ops, il)):
            if l and l[0] in ('panic', 'crash', 'hang'):
                return [(i, '%s -> %s' % (o[:60], l[0]))]
        return []
