"""C06 - Robinson-Foulds distance is a symmetric, naming-independent split distance"""
import itertools
from fractions import Fraction
import vf, gen
from vf import Case
from checklib import PropCheck
from props.common import dump_of
from props.c05 import reorder, add_unary, redraw_root, rename, splits_of_dump

def root_info(nodes):
    live = [n for n in nodes if n is not None]
    root = [n for n in live if n['parent'] is None][0]
    def leaves_under(v):
        n = nodes[v]
        if not n['children']:
            return [vf.dec_str(n['name'])]
        out = []
        for c in n['children']:
            out += leaves_under(c)
        return out
    full = frozenset(leaves_under(root['id']))
    rs = set()
    for c in root['children']:
        cl = frozenset(leaves_under(c))
        rs.add(frozenset([cl, full - cl]))
    return len(root['children']), rs

def pair_ops(t1, t2, extra0=(), extra1=()):
    return (['sel 0', gen.parse_op(gen.to_newick(t1)), 'dump', 'sel 1', gen.parse_op(gen.to_newick(t2)), 'dump',
             'sel 0'] + list(extra0) + ['sel 1'] + list(extra1))

def nni_neighbour(t, rng):
    """a small random rearrangement: swap two subtrees hanging at different places"""
    t = t.copy()
    inner = [n for n in t.nodes() if len(n.children) >= 2]
    for _ in range(rng.randint(1, 3)):
        a = rng.choice(inner); b = rng.choice(inner)
        if a is b:
            continue
        i = rng.randrange(len(a.children)); j = rng.randrange(len(b.children))
        x, y = a.children[i], b.children[j]
        # avoid creating cycles: x must not contain b and y must not contain a
        if b in x.nodes() or a in y.nodes():
            continue
        a.children[i], b.children[j] = y, x
    return t

class Check(PropCheck):
    pid = 'C06'
    pure_predicate = True
    strict_err_ops = ('rf', 'rf_norm')
    rule = ('ordered pairs of leaf-labelled shapes with <= 5 leaves (all shape pairs, both root styles, mixed pairs; each under a random '
            'taxon permutation and child rotation), random pairs to 60 / 200 leaves (NNI-like neighbours so that distances are small '
            'and non-zero), pairs with different / overlapping leaf sets; observed: robinson_foulds both orders, normalised, '
            'compare_topologies; non-trivial: at least one tree has a non-trivial split; distinct by op-list hash')

    def gen_cases(self):
        rng = self.rng
        cases = []
        k = 0
        q0 = ['rf 1', 'rf_norm 1', 'cmp_topo 1', 'rf 0']
        q1 = ['rf 0', 'rf_norm 0', 'cmp_topo 0']
        maxn = 5
        for n in range(3, maxn + 1):
            shapes = gen.all_shapes(n)
            prs = list(itertools.product(range(len(shapes)), repeat=2))
            lim = 700 if self.tier == 'quick' else 100000
            if len(prs) > lim:
                prs = rng.sample(prs, lim)
            for (i, j) in prs:
                names = gen.default_names(n)
                for rep in range(1 if self.tier == 'quick' else 3):
                    p1 = list(names); p2 = list(names); rng.shuffle(p1); rng.shuffle(p2)
                    t1 = shapes[i].copy(); gen.name_leaves(t1, p1); gen.assign_lengths(t1, rng, 'ones')
                    t2 = shapes[j].copy(); gen.name_leaves(t2, p2); gen.assign_lengths(t2, rng, 'ones')
                    if rng.random() < 0.5:
                        t2 = redraw_root(t2); gen.assign_lengths(t2, rng, 'ones')
                    if rng.random() < 0.3:
                        t1 = redraw_root(t1); gen.assign_lengths(t1, rng, 'ones')
                    cases.append(Case('p%d' % k, pair_ops(t1, t2, q0, q1), {'kind': 'pair'})); k += 1
        self.stats['small_shape_pairs'] = k
        nr = 150 if self.tier == 'quick' else 4000
        for j in range(nr):
            n = rng.randint(4, 60 if self.tier == 'quick' else 200)
            names = ['t%d' % i for i in range(n)]
            t1 = gen.rand_tree(rng, n, 'ones', p_multi=rng.choice([0, 0.2]), internal_names=0.0, names=names)
            r = rng.random()
            if r < 0.25:
                t2 = reorder(t1, rng); kind = 'reorder'
            elif r < 0.8:
                t2 = nni_neighbour(t1, rng); kind = 'pair'
            else:
                t2 = gen.rand_tree(rng, n, 'ones', p_multi=0.2, internal_names=0.0, names=names); kind = 'pair'
            if rng.random() < 0.3:
                t2 = redraw_root(t2)
            poly = [x for x in t1.nodes() if len(x.children) >= 3]
            if poly and kind == 'pair' and rng.random() < 0.35:
                # t2 refines a polytomy of t1 (t1's split set is a strict subset of t2's); half of the time both get two-child roots whose
                # root splits differ (the correction of two must then appear in BOTH directions and in the report)
                t2 = t1.copy()
                for _ in range(rng.randint(1, 2)):
                    cand = [x for x in t2.nodes() if len(x.children) >= 3]
                    if not cand:
                        break
                    x = rng.choice(cand)
                    ci = rng.randrange(len(x.children) - 1)
                    x.children = x.children[:ci] + [gen.T(children=x.children[ci:ci + 2])] + x.children[ci + 2:]
                if rng.random() < 0.5:
                    t2 = redraw_root(t2)
            if rng.random() < 0.15:
                # internal labels equal to leaf labels (support values that look like taxon ids): leaf names stay unique
                for tt in (t1, t2):
                    leafn = [l.name for l in tt.leaves()]
                    for nd in tt.nodes():
                        if nd.children and rng.random() < 0.4:
                            nd.name = rng.choice(leafn)
            ru = rng.random()
            if ru < 0.2 and kind == 'pair':
                # unary nodes: one above the root of either tree (extra outer parentheses: the root then has ONE child, the node below it
                # two), or somewhere inside
                if rng.random() < 0.6:
                    t2 = gen.T(children=[t2])
                if rng.random() < 0.4:
                    t1 = gen.T(children=[t1]); gen.assign_lengths(t1, rng, 'ones')
                if rng.random() < 0.4:
                    t2 = add_unary(t2, rng, rng.randint(1, 2))
            gen.assign_lengths(t2, rng, 'ones')
            cases.append(Case('r%d' % j, pair_ops(t1, t2, q0, q1), {'kind': kind}))
        # renaming: rf(t1,t2) = rf(sigma t1, sigma t2)
        for j in range(60 if self.tier == 'quick' else 1000):
            n = rng.randint(4, 20)
            names = ['t%d' % i for i in range(n)]
            t1 = gen.rand_tree(rng, n, 'ones', internal_names=0.0, names=names)
            t2 = nni_neighbour(t1, rng); gen.assign_lengths(t2, rng, 'ones')
            perm = list(names); rng.shuffle(perm); m = dict(zip(names, perm))
            ops = pair_ops(t1, t2, ['rf 1'], []) + ['sel 2', gen.parse_op(gen.to_newick(rename(t1, m))), 'sel 3', gen.parse_op(gen.to_newick(rename(t2, m))), 'sel 2', 'rf 3']
            cases.append(Case('n%d' % j, ops, {'kind': 'rename'}))
        # in-place renaming after a query (swap two tip names through get_by_name_mut), compared with freshly parsed copies
        for j in range(60 if self.tier == 'quick' else 1000):
            n = rng.randint(4, 14)
            names = ['t%d' % i for i in range(n)]
            t1 = gen.rand_tree(rng, n, 'ones', internal_names=0.0, names=names)
            t2 = nni_neighbour(t1, rng); gen.assign_lengths(t2, rng, 'ones')
            a, b = rng.sample(names, 2)
            m = dict((x, x) for x in names); m[a], m[b] = b, a
            ops = pair_ops(t1, t2, ['rf 1', 'cmp_topo 1'], []) + ['sel 0',
                   'rename_by_name %s %s' % (vf.enc_str(a), vf.enc_str('tmp')), 'rename_by_name %s %s' % (vf.enc_str(b), vf.enc_str(a)),
                   'rename_by_name %s %s' % (vf.enc_str('tmp'), vf.enc_str(b)), 'rf 1', 'sel 2', gen.parse_op(gen.to_newick(rename(t1, m))), 'rf 1']
            cases.append(Case('s%d' % j, ops, {'kind': 'swap'}))
        # different leaf sets
        for j in range(40 if self.tier == 'quick' else 400):
            n = rng.randint(3, 12)
            names = ['t%d' % i for i in range(n)]
            t1 = gen.rand_tree(rng, n, 'ones', internal_names=0.0, names=names)
            names2 = list(names)
            if rng.random() < 0.5:
                names2[rng.randrange(n)] = 'other'
            else:
                names2 = names2[:-1] if n > 3 else names2 + ['extra']
            t2 = gen.rand_tree(rng, len(names2), 'ones', internal_names=0.0, names=names2)
            cases.append(Case('d%d' % j, pair_ops(t1, t2, ['rf 1', 'rf_norm 1'], ['rf 0']), {'kind': 'diff'}))
        return cases

    def nontrivial(self, case, il):
        for o, l in zip(case.ops, il):
            if o.startswith('cmp_topo') and l[0] == 'ok':
                return True
        return case.meta.get('kind') in ('diff', 'rename')

    def predicate(self, case, il):
        bad = []
        kind = case.meta.get('kind')
        dumps = []
        cur = None
        vals = {}
        for i, (o, l) in enumerate(zip(case.ops, il)):
            a = o.split()
            if a[0] == 'sel':
                cur = int(a[1])
            elif o == 'dump':
                dumps.append(dump_of(l))
            elif a[0] in ('rf', 'rf_norm', 'cmp_topo'):
                if l[0] in ('panic', 'crash', 'hang'):
                    return [(i, o + ' ' + l[0])]
                vals[(a[0], cur, int(a[1]))] = (i, l)
        if kind == 'diff':
            for (nm, a_, b_), (i, l) in vals.items():
                if l[0] != 'err':
                    bad.append((i, 'trees on different leaf sets were not rejected')); break
            return bad
        if kind == 'swap':
            x = [v for k2, v in vals.items() if k2 == ('rf', 0, 1)]
            y = vals.get(('rf', 2, 1))
            # vals keeps the LAST rf 0->1 (after the swap); compare it with the freshly parsed renamed copy
            if x and y and x[0][1] != y[1]:
                bad.append((x[0][0], 'RF after renaming tips in place (%s) differs from RF of a freshly parsed renamed copy (%s)' % (x[0][1], y[1])))
            return bad
        if kind == 'rename':
            x = vals.get(('rf', 0, 1)); y = vals.get(('rf', 2, 3))
            if x and y and x[1] != y[1]:
                bad.append((y[0], 'RF changed under a consistent renaming of taxa: %s vs %s' % (x[1], y[1])))
            return bad
        if len(dumps) < 2 or dumps[0] is None or dumps[1] is None:
            return bad
        S1, _ = splits_of_dump(dumps[0]); S2, _ = splits_of_dump(dumps[1])
        k1, r1 = root_info(dumps[0]); k2, r2 = root_info(dumps[1])
        spec = len(S1 ^ S2)
        tot = len(S1) + len(S2)
        def rfv(key):
            v = vals.get(key)
            if v is None or v[1][0] != 'ok':
                return None
            return int(v[1][1])
        ab, ba = rfv(('rf', 0, 1)), rfv(('rf', 1, 0))
        i_ab = vals.get(('rf', 0, 1), (0, None))[0]
        if ab is None or ba is None:
            return [(i_ab, 'RF refused on trees with a common uniquely named leaf set')]
        if ab != ba:
            bad.append((i_ab, 'RF not symmetric: %d vs %d' % (ab, ba)))
        corr = 2 if (k1 == 2 and k2 == 2 and spec != 0 and r1 != r2) else 0
        if ab != spec + corr:
            bad.append((i_ab, 'RF = %d, split count %d, root correction %d' % (ab, spec, corr)))
        if kind == 'reorder' and ab != 0:
            bad.append((i_ab, 'RF against a child reordering of itself is %d' % ab))
        self_rf = rfv(('rf', 0, 0))
        if self_rf not in (None, 0):
            bad.append((i_ab, 'RF of a tree with itself is %d' % self_rf))
        ct = vals.get(('cmp_topo', 0, 1))
        if ct and ct[1][0] == 'ok':
            if vf.fl(ct[1][1]) != float(ab):
                bad.append((ct[0], 'combined report RF %s differs from robinson_foulds %d' % (vf.fl(ct[1][1]), ab)))
        nv = vals.get(('rf_norm', 0, 1))
        if nv and nv[1][0] == 'ok' and tot > 0 and k1 >= 3 and k2 >= 3:
            x = vf.fl(nv[1][1])
            if abs(x - spec / tot) > 1e-12 or not (0.0 <= x <= 1.0):
                bad.append((nv[0], 'normalised RF %s, expected %d/%d' % (x, spec, tot)))
        return bad
