"""C11 - editing operations have exactly their documented effect"""
from fractions import Fraction
import vf, gen
from vf import Case
from checklib import PropCheck
from props.common import dump_of

def live(nodes):
    return [n for n in nodes if n is not None]

def subtree_ids(nodes, v):
    out = [v]
    for c in nodes[v]['children']:
        out += subtree_ids(nodes, c)
    return out

def leaf_paths(nodes):
    """(leaf ids, dict pair -> exact path length or None when a length is missing)"""
    lv = [n['id'] for n in live(nodes) if not n['children']]
    def anc(v):
        out = [v]
        while nodes[v]['parent'] is not None:
            v = nodes[v]['parent']; out.append(v)
        return out[::-1]
    paths = {v: anc(v) for v in lv}
    D = {}
    for i, a in enumerate(lv):
        for b in lv[:i]:
            pa, pb = paths[a], paths[b]
            k = 0
            while k < len(pa) and k < len(pb) and pa[k] == pb[k]:
                k += 1
            tot = Fraction(0)
            for v in pa[k:] + pb[k:]:
                pe = nodes[v]['pe']
                if pe == '-':
                    tot = None; break
                x = vf.decode_num(pe)
                if not x.finite():
                    tot = None; break
                tot += x.v
            D[frozenset([a, b])] = tot
    return lv, D

class Check(PropCheck):
    pid = 'C11'
    pure_predicate = True
    rule = ('single operations with EVERY valid argument (every non-root node for prune, every ordered pair of nodes for merge_children - '
            'siblings and not, factors {0, 0.5, 2, -1, 0.001, 3.7}) on all shapes with <= 6 nodes and random trees with unary / '
            'multifurcating nodes and exact dyadic lengths, and sequences of operations; resolve under many seeds (hook) with the outcome '
            'read back and the number of distinct outcomes reported; compared: full arena before / after; non-trivial: tree has >= 3 nodes')

    def gen_cases(self):
        rng = self.rng
        cases = []
        trees = []
        for n in range(1, 5):
            for sh in gen.all_shapes(n):
                t = sh.copy(); gen.name_leaves(t, gen.default_names(n)); gen.name_internals(t, rng, 0.5)
                gen.assign_lengths(t, rng, 'exact', p_missing=0.0)
                trees.append(t)
        for txt in ['((A:1)X:2,B:3)R;', '(((A:1,B:1)C:1)D:1,(E:1)F:1)G;', '((A:0.5,(C:1,E:2)D:0.25)B:1,((H:1)I:2)G:4)F;', '(A:1,B:1,C:1,D:1,E:1)R;',
                    '((A:1,B:1,C:1)X:1,(D:1,E:1,F:1,G:1)Y:1)R;']:
            trees.append(txt)
        nr = 40 if self.tier == 'quick' else 1000
        for _ in range(nr):
            n = rng.randint(3, 12 if self.tier == 'quick' else 40)
            trees.append(gen.rand_tree(rng, n, 'exact', p_multi=0.4, p_unary=0.2, internal_names=0.5))
        self.stats['trees'] = len(trees)
        k = 0
        for t in trees:
            if isinstance(t, str):
                start = [gen.parse_op(t)]; size = t.count(',') + t.count('(') + 1
            else:
                start = [gen.parse_op(gen.to_newick(t))]; size = len(t.nodes())
            base = start + ['dump']
            for x in range(size + 1):
                cases.append(Case('p%d' % k, base + ['prune %d' % x, 'dump'], {'op': 'prune'})); k += 1
            lim = size if size <= 7 else 0
            for a in range(lim):
                for b in range(lim):
                    cases.append(Case('m%d' % k, base + ['merge %d %d %s %s %s %s' % (a, b, vf.enc_len(0.25), vf.enc_len(0.5) if (a + b) % 2 else '-',
                                                                                 vf.enc_len(2.0) if a % 2 else '-', vf.enc_str('M')), 'dump'], {'op': 'merge'})); k += 1
            if size > 7:
                for _ in range(12):
                    cases.append(Case('m%d' % k, base + ['pick %s %d' % (rng.choice(['sibpair', 'sibpair', 'live']), rng.randint(0, 10 ** 6)),
                                                         'merge $0 %s - - - -' % ('$1' if True else '$0'), 'dump'], {'op': 'merge'})); k += 1
            for f in (0.0, 0.5, 2.0, -1.0, 0.001, 3.7):
                cases.append(Case('s%d' % k, base + ['rescale ' + vf.enc_len(f), 'dump'], {'op': 'rescale', 'f': f, 'tol': None if f in (0.0, 0.5, 2.0, -1.0) else 2.0 ** -50})); k += 1
            cases.append(Case('c%d' % k, base + ['compress', 'dump'], {'op': 'compress'})); k += 1
            cases.append(Case('l%d' % k, base + ['ladderize', 'dump'], {'op': 'ladderize'})); k += 1
            for s in range(6 if self.tier == 'quick' else 40):
                cases.append(Case('r%d' % k, base + ['size', 'resolve %d' % rng.randint(0, 2 ** 40), 'dump'], {'op': 'resolve'})); k += 1
            # sequences
            for s in range(3):
                ops = list(base)
                for _ in range(rng.randint(2, 5)):
                    r = rng.random(); big = rng.randint(0, 10 ** 6)
                    if r < 0.25:
                        ops += ['pick nonroot %d' % big, 'prune $0', 'dump']
                    elif r < 0.45:
                        ops += ['compress', 'dump']
                    elif r < 0.6:
                        ops += ['size', 'resolve %d' % big, 'dump']
                    elif r < 0.75:
                        ops += ['ladderize', 'dump']
                    elif r < 0.85:
                        ops += ['rescale ' + vf.enc_len(rng.choice([0.5, 2.0, 4.0])), 'dump']
                    else:
                        ops += ['pick sibpair %d' % big, 'merge $0 $1 %s %s - -' % (vf.enc_len(0.5), vf.enc_len(1.5)), 'dump']
                cases.append(Case('q%d' % k, ops, {'op': 'seq'})); k += 1
        return cases

    def nontrivial(self, case, il):
        # (also the place where distinct resolve outcomes are counted: it runs in the parent process, the predicate in the workers)
        for k, (o, l) in enumerate(zip(case.ops, il)):
            if o.startswith('resolve') and l and l[0] == 'ok' and k + 1 < len(il) and case.ops[k + 1] == 'dump':
                self.outcomes.add(hash(' '.join(il[k + 1])))
        for o, l in zip(case.ops, il):
            if o == 'dump':
                nodes = dump_of(l)
                return nodes is not None and len(live(nodes)) >= 3
        return False

    outcomes = set()
    def extra_coverage(self):
        return {'distinct_resolve_outcomes_seen': len(self.outcomes)}

    def predicate(self, case, il):
        bad = []
        prev = None
        pending = None
        for i, (o, l) in enumerate(zip(case.ops, il)):
            a = o.split()
            if l and l[0] in ('panic', 'crash', 'hang'):
                return [(i, o[:40] + ' ' + l[0])]
            if o == 'dump':
                cur = dump_of(l)
                if cur is not None and prev is not None and pending is not None:
                    r = self.effect(pending, prev, cur)
                    if r:
                        bad.append((i, r)); break
                prev = cur; pending = None
            elif a[0] in ('prune', 'merge', 'compress', 'resolve', 'ladderize', 'rescale'):
                args = a[1:]
                if '$0' in o:
                    # resolved by the harness: read the picked ids from the previous line
                    pk = il[i - 1][2:-1] if il[i - 1][0] == 'ok' else []
                    args = [pk[int(x[1:])] if x.startswith('$') and int(x[1:]) < len(pk) else x for x in args]
                pending = (a[0], args, l)
        return bad

    def effect(self, pending, b, c):
        op, args, res = pending
        lb, lc = live(b), live(c)
        def same_node(x, y, children=True):
            return x['name'] == y['name'] and x['pe'] == y['pe'] and x['comment'] == y['comment'] and (not children or x['children'] == y['children']) and x['parent'] == y['parent']
        if res[0] != 'ok':
            # refused: nothing may change
            if b != c and op in ('merge', 'prune'):
                return '%s was refused but the tree changed' % op
            if op == 'merge':
                return None
            return None
        if op == 'prune':
            x = int(args[0])
            gone = set(subtree_ids(b, x))
            for n in lb:
                if n['id'] in gone:
                    if c[n['id']] is not None:
                        return 'prune: node %d of the removed subtree is still live' % n['id']
                else:
                    m = c[n['id']]
                    if m is None:
                        return 'prune: node %d outside the chosen subtree was removed' % n['id']
                    if n['id'] == b[x]['parent']:
                        exp = [ch for ch in n['children'] if ch != x]
                        if m['children'] != exp or not same_node(n, m, children=False):
                            return 'prune: the parent of %d changed beyond losing that child' % x
                    elif not same_node(n, m):
                        return 'prune: node %d outside the chosen subtree changed' % n['id']
            return None
        if op == 'merge':
            x, y = int(args[0]), int(args[1])
            if b[x]['parent'] != b[y]['parent'] or x == y:
                return 'merge of non-siblings (%d,%d) was not refused' % (x, y)
            new = int(res[1])
            if new != len(b) or c[new] is None or c[new]['children'] != [x, y]:
                return 'merge: the new node does not hold exactly the two chosen siblings in order'
            p = b[x]['parent']
            for n in lb:
                m = c[n['id']]
                if m is None:
                    return 'merge: node %d disappeared' % n['id']
                if n['id'] in (x, y):
                    if m['parent'] != new or m['children'] != n['children'] or m['name'] != n['name'] or m['comment'] != n['comment']:
                        return 'merge: merged child %d changed beyond its parent and length' % n['id']
                elif n['id'] == p:
                    exp = [ch for ch in n['children'] if ch not in (x, y)] + [new]
                    if m['children'] != exp or not same_node(n, m, children=False):
                        return 'merge: the parent changed beyond regrouping the two children'
                elif not same_node(n, m):
                    return 'merge: node %d not involved in the merge changed' % n['id']
            return None
        if op == 'rescale':
            f = vf.bits_f64(int(args[0][1:17], 16))
            for n in lb:
                m = c[n['id']]
                if m is None or m['children'] != n['children'] or m['name'] != n['name'] or m['parent'] != n['parent']:
                    return 'rescale changed the structure at node %d' % n['id']
                def mul(tok):
                    if tok == '-':
                        return '-'
                    return 'f%016x' % vf.f64_bits(vf.bits_f64(int(tok[1:], 16)) * f)
                def eqf(t1, t2):
                    if t1 == t2:
                        return True
                    if t1 == '-' or t2 == '-':
                        return False
                    x, y = vf.bits_f64(int(t1[1:], 16)), vf.bits_f64(int(t2[1:], 16))
                    return x == y or (x != x and y != y)
                if not eqf(m['pe'], mul(n['pe'])):
                    return 'rescale: length of %d is %s, expected %s' % (n['id'], m['pe'], mul(n['pe']))
                for ch, e in n['edges'].items():
                    if not eqf(m['edges'].get(ch, '-'), mul(e)):
                        return 'rescale: parent-side length record of %d not multiplied' % ch
            return None
        # compress / resolve / ladderize: leaves and leaf-to-leaf path lengths preserved + postcondition
        lv_b, D_b = leaf_paths(b); lv_c, D_c = leaf_paths(c)
        if op in ('compress', 'resolve', 'ladderize'):
            if sorted(lv_b) != sorted(lv_c):
                return '%s changed the set of leaves' % op
            for k2, v in D_b.items():
                if v is not None and D_c.get(k2) != v:
                    return '%s changed the path length between leaves %s: %s -> %s' % (op, sorted(k2), v, D_c.get(k2))
            for n in lc:
                old = b[n['id']] if n['id'] < len(b) else None
                if old is not None and (old['name'] != n['name'] or old['comment'] != n['comment']):
                    return '%s changed the label of node %d' % (op, n['id'])
        if op == 'compress':
            for n in lc:
                if n['parent'] is not None and len(n['children']) == 1:
                    return 'compress left the non-root node %d with a single child' % n['id']
        if op == 'resolve':
            for n in lc:
                if len(n['children']) > 2:
                    return 'resolve left node %d with %d children' % (n['id'], len(n['children']))
                if n['id'] >= len(b) and n['pe'] != 'f0000000000000000':
                    return 'resolve created a branch of length %s' % n['pe']
        if op == 'ladderize':
            def desc(v):
                return sum(1 + desc(ch) for ch in c[v]['children'])
            for n in lc:
                old = b[n['id']]
                if sorted(old['children']) != sorted(n['children']) or old['pe'] != n['pe']:
                    return 'ladderize changed more than the order of children at node %d' % n['id']
                cnt = [desc(ch) for ch in n['children']]
                if cnt != sorted(cnt):
                    return 'ladderize: children of %d not ordered by subtree size' % n['id']
                # stability
                exp = sorted(old['children'], key=lambda ch: desc(ch))
                if exp != n['children']:
                    return 'ladderize: order of equal-sized siblings of %d not preserved' % n['id']
        return None
