"""C08 - both distance-matrix algorithms return the true leaf-to-leaf path lengths"""
from fractions import Fraction
import vf, gen
from vf import Case
from checklib import PropCheck
from props.common import dump_of
from props.c10 import edit_prefix

def parse_dm(line):
    """ok size n taxa [ ... ] cells [ ... ] -> (taxa, cells tokens)"""
    t = line[1:]
    i = t.index('[') ; j = t.index(']')
    taxa = [vf.dec_str(x) for x in t[i + 1:j]]
    k = t.index('[', j); m = t.index(']', k)
    return taxa, t[k + 1:m]

def tril(i, j):
    if i < j:
        i, j = j, i
    return (i - 1) * i // 2 + j if i > 0 else j

class Check(PropCheck):
    pid = 'C08'
    pure_predicate = True
    rule = ('trees with polytomies, unary nodes, two- and three-child roots, names assigned so that arena order, sorted order and '
            'traversal order all differ, 2-40 (quick) / 2-300 (thorough) leaves; exact dyadic lengths (bit-exact comparison with the '
            'exact path sums), an inexact stream at 1e-9, trees without any length (edge counts), trees after edits; both algorithms, '
            'and all pairwise get_distance; non-trivial: >= 3 leaves; distinct by op-list hash')

    def gen_cases(self):
        rng = self.rng
        cases = []
        nr = 260 if self.tier == 'quick' else 5000
        for j in range(nr):
            n = rng.randint(2, 14) if rng.random() < 0.7 else rng.randint(14, 40 if self.tier == 'quick' else 150)
            mode = rng.choice(['exact', 'exact', 'exact', 'mod', 'none'])
            names = ['t%d' % i for i in range(n)] if rng.random() < 0.5 else ['Tip_%d' % i for i in range(n)]
            t = gen.rand_tree(rng, n, mode, p_multi=rng.choice([0, 0.3, 0.6]), p_unary=rng.choice([0, 0.15]), internal_names=rng.choice([0.3, 0.8]), names=names,
                              root_len=rng.random() < 0.2, collide=rng.choice([0, 0, 0.5]))
            ops = [gen.parse_op(gen.to_newick(t))] if rng.random() < 0.7 else ['new'] + gen.build_ops(t)
            if rng.random() < 0.25:
                ops += edit_prefix(rng, rng.randint(1, 3)) + ['compress']
            ops += ['dump', 'dm', 'dmr', 'dm', 'get_leaves']
            if rng.random() < 0.35:
                # the per-node distance caches must not survive an edit: matrix, edit, matrix again
                e = rng.random()
                if e < 0.4:
                    ed = ['rescale ' + vf.enc_len(rng.choice([2.0, 0.5, 4.0]))]
                elif e < 0.7:
                    ed = ['pick leaf %d' % rng.randint(0, 10 ** 6), 'prune $0', 'compress']
                else:
                    ed = ['pick sibpair %d' % rng.randint(0, 10 ** 6), 'merge $0 $1 %s %s %s -' % (vf.enc_len(0.5), vf.enc_len(1.5), vf.enc_len(0.25))]
                ops += ed + ['dump', 'dm', 'dmr']
            meta = {'tol': None if mode in ('exact', 'none') else 1e-9, 'mode': mode}
            if n <= 12:
                # pairwise get_distance on all leaf pairs: ids are not known here, ask for all pairs of slots
                sz = len(t.nodes()) + 4
                for a in range(sz):
                    for b in range(a + 1, sz):
                        ops.append('dist %d %d' % (a, b))
            cases.append(Case('c%d' % j, ops, meta))
        # value classes: every length subnormal / a power of two far from 1 / zero (exact in binary64, so compared bit for bit): a present
        # length must never be mistaken for an absent one, whatever its magnitude
        for j in range(30 if self.tier == 'quick' else 400):
            n = rng.randint(2, 9)
            t = gen.rand_tree(rng, n, 'exact', p_multi=rng.choice([0, 0.4]), p_unary=rng.choice([0, 0.15]), internal_names=0.3)
            unit = rng.choice([5e-324, 5e-324, 2.0 ** -1060, 2.0 ** -1022, 2.0 ** -500, 2.0 ** 900])
            for i, nd in enumerate(t.nodes()):
                if i > 0:
                    nd.length = unit * rng.randint(0 if rng.random() < 0.2 else 1, 7)
                    if j % 3 == 0 and rng.random() < 0.6:
                        nd.length = 0.0          # many exact zeros: distinct leaves at distance exactly 0
            ops = ['new'] + gen.build_ops(t) + ['dump', 'dm', 'dmr', 'get_leaves']
            sz = len(t.nodes()) + 1
            for a in range(sz):
                for b in range(a + 1, sz):
                    ops.append('dist %d %d' % (a, b))
            cases.append(Case('v%d' % j, ops, {'tol': None, 'mode': 'exact'}))
        for j in range(40 if self.tier == 'quick' else 600):
            n = rng.randint(3, 10)
            t = gen.rand_tree(rng, n, 'exact', p_multi=0.3, p_unary=0.1, internal_names=0.3)
            ops = [gen.parse_op(gen.to_newick(t)), 'pick nonroot %d' % rng.randint(0, 10 ** 6), 'set_pedge $0 ' + vf.enc_len(gen.exact_len(rng)), 'dm', 'dmr', 'dump']
            cases.append(Case('w%d' % j, ops, {'tol': None, 'mode': 'exact', 'pub_write': True}))
        return cases

    def nontrivial(self, case, il):
        for o, l in zip(case.ops, il):
            if o == 'dm':
                return l[0] == 'ok' and int(l[2]) >= 3
        return False

    def predicate(self, case, il):
        bad = []
        if case.meta.get('pub_write'):
            return [(i, o + ' ' + l[0]) for i, (o, l) in enumerate(zip(case.ops, il)) if l and l[0] in ('panic', 'crash', 'hang')][:1]
        tol = case.meta.get('tol')
        groups = []
        nodes = None
        mats = []
        for i, (o, l) in enumerate(zip(case.ops, il)):
            if o == 'dump':
                if nodes is not None:
                    groups.append((nodes, mats))
                nodes = dump_of(l); mats = []
            elif o in ('dm', 'dmr'):
                if l[0] in ('panic', 'crash', 'hang'):
                    return [(i, o + ' ' + l[0])]
                mats.append((i, o, l))
        if nodes is not None:
            groups.append((nodes, mats))
        for nodes, mats in groups:
            r = self.judge(nodes, mats, tol)
            if r:
                return r
        return []

    def judge(self, nodes, mats, tol):
        bad = []
        if nodes is None:
            return bad
        live = [n for n in nodes if n is not None]
        leaves = [n for n in live if not n['children']]
        if any(n['name'] == '-' for n in leaves):
            return bad
        names = [vf.dec_str(n['name']) for n in leaves]
        if len(set(names)) != len(names) or len(leaves) < 2:
            return bad
        nonroot = [n for n in live if n['parent'] is not None]
        has = [n['pe'] != '-' for n in nonroot]
        if any(has) and not all(has):
            return bad      # mixed present/absent lengths are outside the quantifier
        nolen = not any(has)
        def anc(v):
            out = [v]
            while nodes[v]['parent'] is not None:
                v = nodes[v]['parent']; out.append(v)
            return out[::-1]
        def pl(a, b):
            pa, pb = anc(a), anc(b)
            k = 0
            while k < len(pa) and k < len(pb) and pa[k] == pb[k]:
                k += 1
            tail = pa[k:] + pb[k:]
            if nolen:
                return Fraction(len(tail))
            return sum((vf.decode_num(nodes[v]['pe']).v for v in tail), Fraction(0))
        order = sorted(leaves, key=lambda n: vf.dec_str(n['name']))
        for (i, o, l) in mats:
            if o == 'dmr' and nolen:
                continue        # the recursive variant needs lengths
            if l[0] != 'ok':
                bad.append((i, '%s refused a tree with uniquely named leaves and all lengths: %s' % (o, ' '.join(l[:2])))); break
            taxa, cells = parse_dm(l)
            if taxa != [vf.dec_str(n['name']) for n in order]:
                bad.append((i, '%s: taxa are not listed in sorted order' % o)); break
            okc = True
            for x in range(len(order)):
                for y in range(x):
                    exp = pl(order[x]['id'], order[y]['id'])
                    got = vf.decode_num(cells[tril(x, y)])
                    if not vf.num_eq(got, vf.Num(exp), tol, exp):
                        bad.append((i, '%s: cell (%s,%s) = %s, path length %s' % (o, taxa[x], taxa[y], got, float(exp)))); okc = False; break
                if not okc:
                    break
            if not okc:
                break
        return bad
