"""C14 - Phylip round trip is lossless; the parsers are total and strict"""
import itertools, math
import vf, gen
from vf import Case
from checklib import PropCheck

ALPHA = ['0', '1', '2', 'A', '.', ' ', '\n']
F32_SPECIAL = [0.0, -0.0, 1.401298464324817e-45, 1.1754943508222875e-38, 3.4028234663852886e+38, math.inf, -math.inf, 0.10000000149011612,
               16777216.0, 1.0, 0.5, -2.5, 1e-7 * 0 + 9.999999974752427e-07]

def mat_text(names, rows, size=None, sep='  ', nl='\n'):
    size = len(names) if size is None else size
    out = '%d%s' % (size, nl)
    for nm, r in zip(names, rows):
        out += nm + ('    ' + sep.join(r) if r else '') + nl
    return out

class Check(PropCheck):
    pid = 'C14'
    pure_predicate = True
    tol = 2.0 ** -50
    timeout = 900
    rule = ('round trips: matrices of size 1..12 with f64 and f32 cells of every non-NaN class (negative, -0, subnormal, huge, infinities, '
            'random bit patterns), both layouts, all three entry points (strict square, strict triangular, triangular reader on both '
            'layouts); totality: EXHAUSTIVE texts of length <= 5 (quick) / <= 6 (thorough) over {0,1,2,A,.,space,newline} through all three '
            'entry points, random and mutated files (dropped / duplicated / extra rows, extra or missing columns, perturbed cells, wrong '
            'declared size, CRLF, trailing blanks); non-trivial: the text has >= 2 lines or the matrix >= 2 taxa; distinct by op-list hash')

    def gen_cases(self):
        rng = self.rng
        cases = []
        k = 0
        # (a) round trips
        nrt = 300 if self.tier == 'quick' else 6000
        for j in range(nrt):
            n = rng.randint(1, 12)
            kind = rng.choice(['exact', 'mod', 'special', 'bits', 'f32', 'f32bits'])
            names = []
            for i in range(n):
                names.append(rng.choice(['t', 'Taxon_', 'x', 'é', '1', '0.5', 'A;B', 'q(']) + str(i))
            if rng.random() < 0.15 and n >= 3:
                base = rng.choice(['x', 'ab', 'T'])
                fam = [base, base + 'y', 'y' + base, base + base, 'y', base + 'yy', 'yy' + base, base + 'y' + base, 'y' + base + 'y', base * 3, 'yx' + base, base + 'xy']
                names = fam[:n]
            rng.shuffle(names)
            cells = n * (n - 1) // 2
            f32 = kind.startswith('f32')
            vals = []
            for _ in range(cells):
                if kind == 'exact':
                    v = gen.exact_len(rng)
                elif kind == 'mod':
                    v = gen.moderate_len(rng)
                elif kind == 'special':
                    v = rng.choice(gen.SPECIAL_F64)
                elif kind == 'bits':
                    v = vf.bits_f64(rng.getrandbits(64))
                    v = 1.5 if math.isnan(v) else v
                elif kind == 'f32':
                    v = rng.choice(F32_SPECIAL) if rng.random() < 0.5 else vf.bits_f32(vf.f32_bits(rng.uniform(-100, 100)))
                else:
                    v = vf.bits_f32(rng.getrandbits(32))
                    v = 2.5 if math.isnan(v) else v
                vals.append(v)
            pre = 'm32_' if f32 else 'm_'
            enc = vf.enc_len32 if f32 else vf.enc_len
            ops = ['%snew %d %s %s' % (pre, n, ' '.join(vf.enc_str(x) for x in names), ' '.join(enc(v) for v in vals)), pre + 'dump',
                   pre + 'rt strict 1', pre + 'rt strict 0', pre + 'rt tril 0', pre + 'rt tril 1']
            cases.append(Case('rt%d' % j, ops, {'kind': 'rt', 'impl_only': kind in ('special', 'bits', 'f32bits') or (f32 and True), 'n': n})); k += 1
        # known-finding classes
        for j, (names, kf) in enumerate([(['A', '', 'C'], 'KF2'), (['', 'B'], 'KF2'), (['A', 'A', 'B'], 'KF3'), (['x', 'y', 'x', 'z'], 'KF3')]):
            n = len(names)
            vals = [float(i + 1) for i in range(n * (n - 1) // 2)]
            ops = ['m_new %d %s %s' % (n, ' '.join(vf.enc_str(x) for x in names), ' '.join(vf.enc_len(v) for v in vals)), 'm_dump',
                   'm_rt strict 1', 'm_rt strict 0', 'm_rt tril 0', 'm_rt tril 1']
            cases.append(Case('kf_%d' % j, ops, {'kind': 'rt', 'n': n}))
        # (b) exhaustive short texts
        maxlen = 5 if self.tier == 'quick' else 6
        texts = []
        for n in range(0, maxlen + 1):
            for tup in itertools.product(ALPHA, repeat=n):
                texts.append(''.join(tup))
        self.stats['exhaustive_texts'] = len(texts)
        # (c) mutated files
        nm = 1500 if self.tier == 'quick' else 40000
        muts = []
        for j in range(nm):
            n = rng.randint(1, 5)
            names = ['T%d' % i for i in range(n)]
            M = [[0.0] * n for _ in range(n)]
            for a in range(n):
                for b in range(a):
                    M[a][b] = M[b][a] = rng.choice([1.0, 2.0, 0.5, 3.25, 10.0])
            square = rng.random() < 0.5
            rows = [[gen.rust_display(M[a][b]) for b in (range(n) if square else range(a))] for a in range(n)]
            size = n
            mut = rng.choice(['none', 'drop_row', 'dup_row', 'extra_row', 'extra_col', 'miss_col', 'perturb', 'perturb0', 'diag', 'size', 'crlf', 'blank', 'junk'])
            names2 = list(names); nl = '\n'
            if mut == 'drop_row' and n > 1:
                i = rng.randrange(n); del rows[i]; del names2[i]
            elif mut == 'dup_row':
                i = rng.randrange(n); rows.insert(i, list(rows[i])); names2.insert(i, names2[i] + 'b')
            elif mut == 'extra_row':
                rows.append(['1'] * (n if square else n)); names2.append('Z')
            elif mut == 'extra_col':
                i = rng.randrange(n); rows[i] = rows[i] + ['9']
            elif mut == 'miss_col':
                i = rng.randrange(n)
                if rows[i]:
                    rows[i] = rows[i][:-1]
            elif mut == 'perturb' and n > 1:
                a = rng.randrange(1, n); b = rng.randrange(0, a)
                if square:
                    rows[b][a] = '7.5'
                else:
                    rows[a][b] = '7.5'
            elif mut == 'perturb0' and n > 1 and square:
                # asymmetry whose FIRST-read entry is zero (an unset cell also reads zero: the reader must not confuse the two)
                a = rng.randrange(1, n); b = rng.randrange(0, a)
                if rng.random() < 0.7:
                    rows[b][a] = '0'
                else:
                    rows[a][b] = '0'
            elif mut == 'diag' and square:
                i = rng.randrange(n); rows[i][i] = '1'
            elif mut == 'size':
                size = rng.choice([0, n - 1, n + 1, n + 2]) if n > 0 else 1
                size = max(0, size)
            elif mut == 'crlf':
                nl = '\r\n'
            elif mut == 'junk' and n > 1:
                a = rng.randrange(1, n)
                if rows[a]:
                    rows[a][rng.randrange(len(rows[a]))] = rng.choice(['x', '1..2', '', 'nan', '1e', '--1'])
            text = mat_text(names2, rows, size, nl=nl)
            if mut == 'blank':
                text += rng.choice([' ', '\n', '  \n', '\t'])
            if rng.random() < 0.1:
                # Unicode White_Space separators (split_whitespace accepts them)
                text = text.replace('    ', rng.choice(['\u00a0', '\u3000 ', ' \u2003', '\t']), rng.randint(1, 3))
            muts.append((text, square, mut))
        for i, s in enumerate(texts):
            first = s.split('\n')[0]
            big = first.lstrip('+').isdigit() and int(first) > 20000
            ops = ['m_from_strict %s 1' % vf.enc_str(s), 'm_from_strict %s 0' % vf.enc_str(s)]
            if not big:
                ops.append('m_from_tril %s' % vf.enc_str(s))
            cases.append(Case('x%d' % i, ops, {'kind': 'text', 'text': s}))
        for i, (s, square, mut) in enumerate(muts):
            ops = ['m_from_strict %s 1' % vf.enc_str(s), 'm_from_strict %s 0' % vf.enc_str(s), 'm_from_tril %s' % vf.enc_str(s)]
            cases.append(Case('m%d' % i, ops, {'kind': 'mut', 'text': s, 'square': square, 'mut': mut}))
        return cases

    def nontrivial(self, case, il):
        if case.meta.get('kind') == 'rt':
            return case.meta.get('n', 0) >= 2
        return case.meta.get('text', '').count('\n') >= 1

    def known_finding(self, case, reasons):
        a = case.ops[0].split()
        if a[0] in ('m_new', 'm32_new'):
            n = int(a[1]); names = a[2:2 + n]
            if 's' in names:
                return 'KF2'
            if len(set(names)) != len(names) and all('strict' in r[1] for r in reasons):
                return 'KF3'
        return None

    def predicate(self, case, il):
        bad = []
        kind = case.meta.get('kind')
        for i, (o, l) in enumerate(zip(case.ops, il)):
            if l and l[0] in ('panic', 'crash', 'hang'):
                return [(i, o.split()[0] + ' ' + l[0])]
        if kind == 'rt':
            orig = il[1][1:] if il[1][0] == 'ok' else None
            for i in range(2, len(case.ops)):
                l = il[i]
                which = case.ops[i].split()[1] + ' ' + case.ops[i].split()[2]
                if l[0] != 'ok':
                    bad.append((i, 'written matrix does not parse back (%s): %s' % (which, ' '.join(l[:2])))); break
                got = l[2:]
                if not self.same_matrix(orig, got):
                    bad.append((i, 're-parsed matrix differs from the original (%s)' % which)); break
            return bad
        if kind == 'mut':
            mut = case.meta['mut']; square = case.meta['square']
            idx = 0 if square else 1
            l = il[idx]
            must_reject = mut in ('drop_row', 'dup_row', 'extra_row', 'extra_col', 'miss_col', 'perturb', 'perturb0', 'diag', 'size', 'junk')
            if mut in ('perturb', 'diag') and not square:
                must_reject = False
            if mut in ('drop_row', 'perturb', 'perturb0', 'junk') and case.meta['text'].count('\n') <= 2:
                must_reject = False
            if mut == 'miss_col' and not square and case.meta['text'].count('\n') <= 2:
                must_reject = False
            if must_reject and l[0] == 'ok':
                # re-derive: only claim a violation when the strict contract is really broken by the text
                if self.strict_should_reject(case.meta['text'], square):
                    bad.append((idx, 'strict parser accepted a %s file (%s)' % ('square' if square else 'triangular', mut)))
            if mut in ('none', 'crlf') and l[0] != 'ok':
                bad.append((idx, 'strict parser rejected a valid file (%s): %s' % (mut, ' '.join(l[:2]))))
        return bad

    @staticmethod
    def strict_should_reject(text, square):
        lines = text.split('\n')
        if lines and lines[-1] == '':
            lines = lines[:-1]
        lines = [x[:-1] if x.endswith('\r') else x for x in lines]
        try:
            size = int(lines[0])
        except (ValueError, IndexError):
            return True
        rows = [x.split() for x in lines[1:]]
        if len(rows) != size:
            return True
        M = {}
        for i, r in enumerate(rows):
            if not r:
                return True
            want = size if square else i
            if len(r) - 1 != want:
                return True
            try:
                vals = [float(x) for x in r[1:]]
            except ValueError:
                return True
            if square and vals[i] != 0:
                return True
            for j, v in enumerate(vals):
                M[(i, j)] = v
        if square:
            for (i, j), v in M.items():
                if M.get((j, i)) != v:
                    return True
        return False

    @staticmethod
    def same_matrix(a, b):
        # bit for bit (f / g tokens carry the bits), taxa included
        return a is not None and list(a) == list(b)
