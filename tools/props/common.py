"""helpers shared by the property modules"""
import vf, gen
from vf import Case

def wf_check(nodes):
    """C03's statement evaluated on an arena dump (list of node dicts / None). Returns reasons."""
    bad = []
    live = [n for n in nodes if n is not None]
    for i, n in enumerate(nodes):
        if n is not None and n['id'] != i:
            bad.append('id %d at position %d' % (n['id'], i))
    roots = [n for n in live if n['parent'] is None]
    if live and len(roots) != 1:
        bad.append('%d roots among %d live nodes' % (len(roots), len(live)))
    for n in live:
        for c in n['children']:
            if c >= len(nodes) or nodes[c] is None:
                bad.append('node %d lists removed child %d' % (n['id'], c))
            elif nodes[c]['parent'] != n['id']:
                bad.append('child %d of %d names parent %s' % (c, n['id'], nodes[c]['parent']))
        if len(set(n['children'])) != len(n['children']):
            bad.append('node %d lists a child twice' % n['id'])
        p = n['parent']
        if p is not None:
            if p >= len(nodes) or nodes[p] is None:
                bad.append('node %d refers to removed parent %d' % (n['id'], p))
            else:
                if nodes[p]['children'].count(n['id']) != 1:
                    bad.append('node %d appears %d times among the children of %d' % (n['id'], nodes[p]['children'].count(n['id']), p))
                pe = n['pe']
                ce = nodes[p]['edges'].get(n['id'], '-')
                if pe != ce:
                    bad.append('length of %d: child says %s parent says %s' % (n['id'], pe, ce))
        for k in n['edges']:
            if k not in n['children']:
                bad.append('node %d keeps a length for non-child %d' % (n['id'], k))
    # depth = edges to root (walk up, bounded)
    for n in live:
        d = 0; cur = n; ok = True
        while cur['parent'] is not None:
            p = cur['parent']
            if p >= len(nodes) or nodes[p] is None or d > len(nodes):
                ok = False; break
            cur = nodes[p]; d += 1
        if ok and n['depth'] != d:
            bad.append('depth of %d is %d, %d edges to the root' % (n['id'], n['depth'], d))
        if not ok:
            bad.append('node %d does not reach a root' % n['id'])
    return bad

def dump_of(line):
    if line and line[0] == 'ok' and len(line) > 1 and line[1] == 'size':
        try:
            return vf.parse_dump(line[1:])
        except (AssertionError, IndexError, ValueError):
            return None
    return None

MUTATORS = ('prune', 'compress', 'resolve', 'ladderize', 'rescale', 'merge', 'reset_depths', 'add_child')

def start_trees(rng, tier, max_leaves=4):
    """a list of (label, ops) building small start trees of every kind"""
    out = []
    k = 0
    for n in range(1, max_leaves + 1):
        for sh in gen.all_shapes(n):
            t = sh.copy()
            gen.name_leaves(t, gen.default_names(n))
            gen.name_internals(t, rng, 0.3)
            variants = [('none', 'none'), ('exact', 'exact')]
            for mode, _ in variants:
                tt = t.copy()
                gen.assign_lengths(tt, rng, mode)
                out.append(('parse_%d' % k, [gen.parse_op(gen.to_newick(tt))]))
                k += 1
    # unary variants
    for txt in ['((A:1)X:2,B:3)R;', '(((A,B)C)D,(E)F)G;', '((A:0.5,(C:1,E:2)D:0.25)B:1,((H:1)I:2)G:4)F;', '(A)B;', 'A;']:
        out.append(('parse_%d' % k, [gen.parse_op(txt)])); k += 1
    # API-built
    for n in (2, 3, 4):
        t = gen.rand_tree(rng, n, 'exact', p_multi=0.5, p_unary=0.2)
        out.append(('api_%d' % k, ['new'] + gen.build_ops(t))); k += 1
    # generated
    for shape in ('yule', 'caterpillar', 'ete3'):
        out.append(('gen_%d' % k, ['gen %s 3 1 uniform %d' % (shape, rng.randint(0, 10 ** 6)), 'dump'])); k += 1
    # UPGMA
    vals = [vf.enc_len(float(x)) for x in (2, 4, 4, 6, 6, 6)]
    out.append(('upgma_%d' % k, ['m_new 4 s65 s66 s67 s68 ' + ' '.join(vals), 'upgma'])); k += 1
    return out
