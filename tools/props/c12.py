"""C12 - shape statistics equal their textbook definitions"""
import math
from fractions import Fraction
import vf, gen
from vf import Case
from checklib import PropCheck
from props.common import dump_of
from props.c10 import edit_prefix

STATS = ['n_leaves', 'is_binary', 'is_rooted', 'length', 'diameter', 'height', 'cherries', 'colless', 'sackin',
         'colless_yule', 'colless_pda', 'sackin_yule', 'sackin_pda']

def binary_shapes(n, memo={}):
    if n in memo:
        return memo[n]
    if n == 1:
        r = [gen.T()]
    else:
        r = []
        for k in range(1, n):
            for a in binary_shapes(k):
                for b in binary_shapes(n - k):
                    r.append(gen.T(children=[a.copy(), b.copy()]))
    memo[n] = r
    return r

class Check(PropCheck):
    pid = 'C12'
    pure_predicate = True
    rule = ('all ordered rooted binary shapes with <= 7 (quick) / 9 (thorough) leaves, random binary trees to 200 leaves, trees obtained by '
            'edit histories (prune+compress, merge, resolve) and by UPGMA (cached depths matter for Sackin), unrooted and multifurcating '
            'trees for the generic measures and the refusals; lengths exact dyadic (bit-exact), all absent (edge counts) or inexact (1e-9); '
            'non-trivial: >= 3 leaves; distinct by op-list hash')

    def gen_cases(self):
        rng = self.rng
        cases = []
        k = 0
        maxn = 7 if self.tier == 'quick' else 9
        for n in range(1, maxn + 1):
            shapes = binary_shapes(n)
            if len(shapes) > 450 and self.tier == 'quick':
                shapes = rng.sample(shapes, 450)
            for sh in shapes:
                t = sh.copy(); gen.name_leaves(t, gen.default_names(n, 2))
                mode = rng.choice(['exact', 'none'])
                gen.assign_lengths(t, rng, mode)
                cases.append(Case('b%d' % k, [gen.parse_op(gen.to_newick(t)), 'dump'] + STATS, {'tol': None})); k += 1
        self.stats['exhaustive_binary_shapes'] = k
        nr = 200 if self.tier == 'quick' else 4000
        for j in range(nr):
            n = rng.randint(2, 30) if rng.random() < 0.8 else rng.randint(30, 70 if self.tier == 'quick' else 200)
            mode = rng.choice(['exact', 'exact', 'none', 'mod'])
            kind = rng.random()
            if kind < 0.4:
                t = gen.rand_tree(rng, n, mode, p_multi=0.0, internal_names=0.2, root_len=rng.random() < 0.3, p_missing=rng.choice([0, 0, 0, 0.2]))
                if mode == 'exact' and rng.random() < 0.25:
                    for nd in t.nodes():
                        if nd.length is not None and rng.random() < 0.3:
                            nd.length = -nd.length
                ops = [gen.parse_op(gen.to_newick(t))]
            elif kind < 0.6:
                t = gen.rand_tree(rng, n, mode, p_multi=rng.choice([0.3, 0.6]), p_unary=rng.choice([0, 0.1]), internal_names=0.2)
                ops = [gen.parse_op(gen.to_newick(t))]
                if rng.random() < 0.5:
                    ops += ['size', 'resolve %d' % rng.randint(0, 10 ** 6), 'dump']
            elif kind < 0.8:
                t = gen.rand_tree(rng, n, mode, p_multi=0.0, internal_names=0.2)
                ops = [gen.parse_op(gen.to_newick(t))] + edit_prefix(rng, rng.randint(1, 4)) + ['compress']
            else:
                m = rng.randint(2, 12)
                names = ['t%d' % i for i in range(m)]
                vals = [vf.enc_len(float(rng.randint(1, 60))) for _ in range(m * (m - 1) // 2)]
                ops = ['m_new %d %s %s' % (m, ' '.join(vf.enc_str(x) for x in names), ' '.join(vals)), 'upgma']
                mode = 'mod'
            cases.append(Case('r%d' % j, ops + ['dump'] + STATS, {'tol': None if mode in ('exact', 'none') else 1e-9}))
        return cases

    def nontrivial(self, case, il):
        for o, l in zip(case.ops, il):
            if o == 'n_leaves':
                return l[0] == 'ok' and int(l[1]) >= 3
        return False

    def predicate(self, case, il):
        bad = []
        tol = case.meta.get('tol')
        nodes = None
        res = {}
        for i, (o, l) in enumerate(zip(case.ops, il)):
            if o == 'dump':
                nodes = dump_of(l)
            elif o in STATS:
                if l[0] in ('panic', 'crash', 'hang'):
                    return [(i, o + ' ' + l[0])]
                res[o] = (i, l)
        if nodes is None:
            return bad
        live = [n for n in nodes if n is not None]
        if not live:
            return bad
        roots = [n for n in live if n['parent'] is None]
        if len(roots) != 1:
            return bad
        root = roots[0]
        leaves = [n for n in live if not n['children']]
        def depth(n):
            d = 0
            while n['parent'] is not None:
                n = nodes[n['parent']]; d += 1
            return d
        def want(name, value, kind='int', abs_tol=0.0):
            i, l = res[name]
            if l[0] != 'ok':
                bad.append((i, '%s refused: %s' % (name, ' '.join(l[:2])))); return
            if kind == 'int':
                if int(l[1]) != value:
                    bad.append((i, '%s = %s, definition gives %s' % (name, l[1], value)))
            elif kind == 'frac':
                got = vf.decode_num(l[1])
                if not vf.num_eq(got, vf.Num(value), tol, abs(value)):
                    bad.append((i, '%s = %s, definition gives %s' % (name, got, float(value))))
            else:
                x = vf.fl(l[1])
                if not (abs(x - value) <= abs_tol + 1e-12 * max(1.0, abs(value))):
                    bad.append((i, '%s = %r, definition gives %r' % (name, x, value)))
        def refused(name, why):
            i, l = res[name]
            if l[0] != 'err':
                bad.append((i, '%s not refused on %s tree' % (name, why)))
        want('n_leaves', len(leaves))
        rooted = len(root['children']) == 2
        want('is_rooted', 1 if rooted else 0)
        binary = all(len(n['children']) <= (2 if (n['parent'] is not None or rooted) else 3) for n in live)
        want('is_binary', 1 if binary else 0)
        nonroot = [n for n in live if n['parent'] is not None]
        has = [n['pe'] != '-' for n in nonroot]
        mixed = any(has) and not all(has)
        if not mixed:
            nolen = not any(has)
            if nolen and nonroot:
                refused('length', 'a length-less')
            elif not nolen:
                want('length', sum((vf.decode_num(n['pe']).v for n in nonroot), Fraction(0)), 'frac')
            def pl(a, b):
                pa, pb = [], []
                for (v, acc) in ((a, pa), (b, pb)):
                    x = v
                    acc.append(x['id'])
                    while x['parent'] is not None:
                        x = nodes[x['parent']]; acc.append(x['id'])
                    acc.reverse()
                k = 0
                while k < len(pa) and k < len(pb) and pa[k] == pb[k]:
                    k += 1
                tail = pa[k:] + pb[k:]
                return Fraction(len(tail)) if nolen else sum((vf.decode_num(nodes[v]['pe']).v for v in tail), Fraction(0))
            if 2 <= len(leaves) <= 60:
                dia = max(pl(a, b) for x, a in enumerate(leaves) for b in leaves[:x])
                want('diameter', dia, 'frac')
            if rooted and len(leaves) <= 400:
                want('height', max(pl(root, a) for a in leaves), 'frac')
            elif not rooted:
                refused('height', 'an unrooted')
        strictly_binary = rooted and all(len(n['children']) in (0, 2) for n in live)
        if not rooted:
            for s in ('colless', 'sackin', 'colless_yule', 'sackin_pda'):
                refused(s, 'an unrooted')
        elif not binary:
            for s in ('cherries', 'colless', 'sackin', 'colless_pda', 'sackin_yule'):
                refused(s, 'a non-binary')
        elif strictly_binary:
            nl = {}
            def count(v):
                n = nodes[v]
                if not n['children']:
                    nl[v] = 1
                else:
                    nl[v] = sum(count(c) for c in n['children'])
                return nl[v]
            try:
                count(root['id'])
            except RecursionError:
                return bad
            cher = sum(1 for n in live if len(n['children']) == 2 and all(not nodes[c]['children'] for c in n['children']))
            col = sum(abs(nl[n['children'][0]] - nl[n['children'][1]]) for n in live if n['children'])
            sac = sum(depth(n) for n in leaves)
            N = len(leaves)
            want('cherries', cher); want('colless', col); want('sackin', sac)
            if N >= 2:
                # Euler's constant to full precision; the crate's 8-digit constant deviates by 4.9e-9 (accepted: 1e-8), a cruder one is not
                want('colless_yule', (col - (N * math.log(N) + (0.5772156649015329 - 1. - math.log(2.0)) * N)) / N, 'float', 1e-8)
                want('colless_pda', col / N ** 1.5, 'float')
                want('sackin_yule', (sac - 2.0 * N * sum(1.0 / i for i in range(2, N + 1))) / N, 'float')
                want('sackin_pda', sac / N ** 1.5, 'float')
        return bad
