"""C02 - Newick parser is total and only ever returns well-formed trees"""
import itertools
import vf, gen
from vf import Case
from checklib import PropCheck
from props.common import dump_of, wf_check

ALPHA = ['(', ')', ',', ';', ':', '[', ']', '"', 'A', '1', ' ', '.']
WS = [0x9, 0xa, 0xb, 0xc, 0xd, 0x20, 0x85, 0xa0, 0x1680, 0x2000, 0x2001, 0x2005, 0x200a, 0x2028, 0x2029, 0x202f, 0x205f, 0x3000]

def is_ws(c):
    o = ord(c)
    return (9 <= o <= 13) or o in (32, 0x85, 0xa0, 0x1680, 0x2028, 0x2029, 0x202f, 0x205f, 0x3000) or (0x2000 <= o <= 0x200a)

def skeleton_ok(s):
    """balanced parentheses and a terminating ';' among the characters the state machine treats as delimiters"""
    quotes = False; field = 'N'; depth = 0
    for c in s:
        if quotes and field == 'N' and c != '"':
            continue
        if field == 'C' and c != ']':
            continue
        if is_ws(c) and not quotes:
            continue
        if c == '"':
            quotes = not quotes
        elif c == '[':
            field = 'C'
        elif c == ']':
            field = 'N'
        elif c == ':':
            field = 'L'
        elif c == ',':
            field = 'N'
        elif c == '(':
            depth += 1
        elif c == ')':
            depth -= 1; field = 'N'
            if depth < 0:
                return False
        elif c == ';':
            return depth == 0
    return False

def quotes_ok(s):
    """double quotes occur only as balanced delimiters of a label (met in the Name field, toggle off before any delimiter)"""
    quotes = False; field = 'N'
    for c in s:
        if quotes and field == 'N' and c != '"':
            continue
        if field == 'C' and c != ']':
            if c == '"':
                return False
            continue
        if is_ws(c) and not quotes:
            continue
        if c == '"':
            if field != 'N':
                return False
            quotes = not quotes
        elif quotes:
            return False
        elif c == '[':
            field = 'C'
        elif c == ']':
            field = 'N'
        elif c == ':':
            field = 'L'
        elif c in ',)':
            field = 'N'
        elif c == ';':
            return not quotes
    return not quotes

class Check(PropCheck):
    pid = 'C02'
    tol = 2.0 ** -52      # lengths are decimal text: the model keeps the exact decimal, the crate rounds to f64
    timeout = 900
    rule = ('EXHAUSTIVE: every string of length <= 5 (quick) / <= 7 (thorough) over the 12-symbol token alphabet ( ) , ; : [ ] " A 1 space . ; '
            'plus random strings over arbitrary Unicode (all White_Space code points, astral planes) and mutations of valid Newick; '
            'per string: outcome class, and for Ok the whole arena, its written form, the re-parsed arena and the re-written text; '
            'non-trivial: the string is accepted, or rejected by something other than the missing-semicolon test; distinct by string')

    def gen_cases(self):
        rng = self.rng
        cases = []
        maxlen = 5
        k = 0
        strings = []
        for n in range(0, maxlen + 1):
            for tup in itertools.product(ALPHA, repeat=n):
                strings.append(''.join(tup))
        self.stats['exhaustive_strings'] = len(strings)
        self.stats['exhaustive_maxlen'] = maxlen
        self.stats['exhaustive'] = True
        # fuzz
        nf = 6000 if self.tier == 'quick' else 300000
        pool = ALPHA + ['B', 'é', '0', '5', '-', 'e', '+', 'inf', 'nan', "'", '\\', '中', '\U0001F600', '_', '#', '&'] + [chr(c) for c in WS]
        for _ in range(nf // 2):
            n = rng.randint(1, 24)
            strings.append(''.join(rng.choice(pool) for _ in range(n)))
        for _ in range(nf // 2):
            t = gen.rand_tree(rng, rng.randint(1, 8), rng.choice(['exact', 'none', 'wild']), p_multi=0.3, p_unary=0.2, root_len=rng.random() < 0.3)
            for nd in t.nodes():
                if rng.random() < 0.2:
                    nd.comment = rng.choice(['c', '&&NHX:a=b', 'x y', '(,;:', '"'])
                if rng.random() < 0.1 and nd.name:
                    nd.name = '"' + nd.name + rng.choice([' ', '(', ';', '[', '', '\\', '\\x', "'"]) + 'q"'
            s = list(gen.to_newick(t))
            for _ in range(rng.randint(0, 3)):
                r = rng.random()
                if not s:
                    break
                p = rng.randrange(len(s))
                if r < 0.3:
                    del s[p]
                elif r < 0.6:
                    s.insert(p, rng.choice(pool))
                elif r < 0.8:
                    s[p] = rng.choice(pool)
                else:
                    q = rng.randrange(len(s)); s[p], s[q] = s[q], s[p]
            strings.append(''.join(s))
        # structured extremes: nesting deeper than any 8-bit counter (balanced and not), lengths beyond the f64 range, special float texts
        ext = []
        for d, c in [(200, 200), (255, 255), (256, 256), (256, 255), (257, 256), (257, 1), (300, 300), (300, 299), (300, 260), (300, 44), (520, 520),
                     (520, 264), (520, 8)]:
            ext.append('(' * d + 'A' + ')' * c + ';')
            ext.append('(' * d + 'A,B' + ')' * c + ';')
            ext.append('(' * d + 'A:1' + '):2' * c + ';')
        ext += ['(A),(B);', '(),();', '(A,B)C,(D,E)F;', '(A),B;', 'A,(B);', '(A),(B),(C);', '((A),(B));', '(A)B,(C)D;', ',(A);', '(A),;', '(A);(B);',
                '(A:1),(B:2):3;', '(A)[c],(B);', '"q",(B);']
        for l1 in ['1e309', '-1e400', '2E999', '1' + '0' * 310, '1e-400', '-1e-330', '4.9e-324', '2e-324', '1.7976931348623159e308', 'inf', '-inf',
                   '+inf', 'Infinity', '-INF', 'nan', 'NaN', '-nan', '+NaN', '1e', 'e5', '.e1', '1.e1', '.5', '5.', '+.5e-1', '1_0', '0x10', '1e+', '--1', '+-1',
                   '1e1.5', 'infx', 'in', '٣', '1١']:
            ext.append('(A:%s,B:1);' % l1)
            ext.append('(A:1,B:%s)C:%s;' % (l1, l1))
        # malformed lengths after multi-byte text at every alignment (error paths that slice the input must respect char boundaries)
        mb = ['ü', 'ö', 'Ż', 'ó', 'ł', '中', 'é', '\U0001F600', 'ß', 'ε']
        for q in range(160 if self.tier == 'quick' else 4000):
            nm = lambda: ''.join(rng.choice(mb + ['a', 'b', '_', '1']) for _ in range(rng.randint(1, 14)))
            badl = rng.choice(['O.5', '1x', 'abc', '1..2', '1e', '-', '0.1.2', 'é', '1 2', '٣', '1,5'.replace(',', 'ü')])
            goodl = rng.choice(['0.1', '2', '1e-3'])
            parts = [nm() + ':' + (badl if i == rng.randint(0, 3) else goodl) for i in range(4)]
            ext.append('((%s,%s):0.3,%s,%s)%s;' % (parts[0], parts[1], parts[2], parts[3], nm()))
        strings += ext
        self.stats['structured_extremes'] = len(ext)
        self.stats['fuzz_strings'] = nf
        for i, s in enumerate(strings):
            cases.append(Case('s%d' % i, ['parse ' + vf.enc_str(s), 'dump', 'rt_newick'], {'text': s}))
        return cases

    def case_chunks(self):
        """quick: one chunk; thorough: the exhaustive strings of length 6 are streamed in chunks (bounded memory)"""
        yield self.gen_cases()
        if self.tier != 'quick':
            chunk = []
            k = 0
            for tup in itertools.product(ALPHA, repeat=6):
                s = ''.join(tup)
                chunk.append(Case('x%d' % k, ['parse ' + vf.enc_str(s), 'dump', 'rt_newick'], {'text': s})); k += 1
                if len(chunk) >= 250000:
                    yield chunk
                    chunk = []
            if chunk:
                yield chunk
            self.stats['exhaustive_maxlen'] = 6
            self.stats['exhaustive_strings'] = self.stats.get('exhaustive_strings', 0) + k

    def nontrivial(self, case, il):
        if not il:
            return False
        if il[0][0] == 'ok':
            return True
        return not (il[0][0] == 'err' and len(il[0]) > 1 and il[0][1] == 'NoClosingSemicolon')

    def extra_coverage(self):
        return {'outcome_distribution': self.dist}

    dist = {}
    def predicate(self, case, il):
        if not il:
            return []
        key = il[0][0] + ('_' + il[0][1] if il[0][0] == 'err' and len(il[0]) > 1 else '')
        self.dist[key] = self.dist.get(key, 0) + 1
        s = case.meta.get('text')
        if il[0][0] in ('panic', 'crash', 'hang'):
            return [(0, 'parser ' + il[0][0])]
        if il[0][0] != 'ok':
            return []
        bad = []
        nodes = dump_of(il[1])
        if nodes is None or len(nodes) == 0 or any(n is None for n in nodes):
            return [(1, 'returned tree is empty or holds removed slots')]
        w = wf_check(nodes)
        if w:
            return [(1, 'returned tree is not one well-formed rooted tree: ' + '; '.join(w[:3]))]
        if s is not None and not skeleton_ok(s):
            bad.append((0, 'accepted text without terminating semicolon / with unbalanced parentheses'))
        if s is None or quotes_ok(s):
            r = il[2]
            if r[0] != 'ok':
                bad.append((2, 'written form does not parse back: ' + ' '.join(r[:3])))
            else:
                # r = ok <text> size ... <text2>
                text1, text2 = r[1], r[-1]
                redump = r[2:-1]
                if text1 != text2:
                    bad.append((2, 'written form is not stable'))
                elif not self.same_tree(il[1][1:], redump):
                    bad.append((2, 're-parsed tree differs from the returned tree'))
        return bad

    @staticmethod
    def same_tree(d1, d2):
        if d1 == d2:
            return True
        if len(d1) != len(d2):
            return False
        for x, y in zip(d1, d2):
            if x == y:
                continue
            # NaN lengths: any NaN payload/sign is the same value for this purpose
            nx = vf.decode_num(x) if x and x[0] == 'f' else None
            ny = vf.decode_num(y) if y and y[0] == 'f' else None
            if nx is not None and ny is not None and nx.v == 'nan' and ny.v == 'nan':
                continue
            return False
        return True
