"""C10 - traversals and subtree listings enumerate exactly the subtree, in order"""
import vf, gen
from vf import Case
from checklib import PropCheck
from props.common import dump_of

TRAV = ['preorder', 'postorder', 'inorder', 'levelorder', 'subtree', 'descendants', 'subtree_leaves']

def edit_prefix(rng, k):
    ops = []
    for s in range(k):
        r = rng.random(); big = rng.randint(0, 10 ** 6)
        if r < 0.35:
            ops += ['pick nonroot %d' % big, 'prune $0']
        elif r < 0.5:
            ops += ['compress']
        elif r < 0.75:
            ops += ['pick sibpair %d' % big, 'merge $0 $1 - - - -']
        elif r < 0.9:
            ops += ['pick live %d' % big, 'add_child $0 %s - -' % vf.enc_str('z%d' % s)]
        else:
            ops += ['ladderize']
        if rng.random() < 0.1:
            # an operation on a removed / unknown id: refused, and nothing may be left behind
            ops += ['pick removed %d' % big, rng.choice(['add_child $0 %s - -' % vf.enc_str('g%d' % s), 'prune $0'])]
    return ops

class Check(PropCheck):
    pid = 'C10'
    pure_predicate = True
    rule = ('every traversal / listing from EVERY start id 0..size+1 (root, internal, leaf, removed slot, out of range) of '
            'exhaustive small shapes and random trees, also after prune/compress/merge/add_child/ladderize so that arena order '
            'differs from traversal order and removed slots are present; non-trivial: tree has >= 3 live nodes; distinct by op-list hash')

    def gen_cases(self):
        rng = self.rng
        cases = []
        trees = []
        maxn = 5 if self.tier == 'quick' else 6
        for n in range(1, maxn + 1):
            for sh in gen.all_shapes(n):
                t = sh.copy(); gen.name_leaves(t, gen.default_names(n))
                trees.append(([gen.parse_op(gen.to_newick(t))], 2 * n + 2))
        nr = 120 if self.tier == 'quick' else 2500
        for k in range(nr):
            n = rng.randint(2, 25 if self.tier == 'quick' else 80)
            t = gen.rand_tree(rng, n, 'none', p_multi=rng.choice([0, 0.3, 0.6]), p_unary=rng.choice([0, 0.2]))
            ops = [gen.parse_op(gen.to_newick(t))] if rng.random() < 0.7 else ['new'] + gen.build_ops(t)
            if rng.random() < 0.3:
                ops += ['dm']
            ops += edit_prefix(rng, rng.randint(0, 6))
            trees.append((ops, len(t.nodes()) + 8))
        self.stats['trees'] = len(trees)
        for k, (ops, bound) in enumerate(trees):
            q = ['dump', 'get_leaves', 'get_root']
            for i in range(bound):
                for tr in TRAV:
                    q.append('%s %d' % (tr, i))
            cases.append(Case('t%d' % k, ops + q))
        return cases

    def nontrivial(self, case, il):
        for o, l in zip(case.ops, il):
            if o == 'dump':
                nodes = dump_of(l)
                return nodes is not None and sum(1 for n in nodes if n is not None) >= 3
        return False

    def predicate(self, case, il):
        """the property's own clauses evaluated on the implementation's answers, from the dump alone"""
        bad = []
        nodes = None
        for i, (o, l) in enumerate(zip(case.ops, il)):
            a = o.split()
            if o == 'dump':
                nodes = dump_of(l)
                continue
            if nodes is None or a[0] not in TRAV:
                continue
            x = int(a[1])
            livex = x < len(nodes) and nodes[x] is not None
            if l[0] in ('panic', 'crash', 'hang'):
                bad.append((i, a[0] + ' ' + l[0])); break
            if not livex:
                if l[0] != 'err':
                    bad.append((i, 'traversal from a removed / unknown node did not fail')); break
                continue
            # expected by a direct recursive walk over the dump
            def pre(v): 
                out = [v]
                for c in nodes[v]['children']: out += pre(c)
                return out
            def post(v):
                out = []
                for c in nodes[v]['children']: out += post(c)
                return out + [v]
            def level(v):
                out = []; q = [v]
                while q:
                    nq = []
                    for u in q:
                        out.append(u); nq += nodes[u]['children']
                    q = nq
                return out
            def ino(v):
                ch = nodes[v]['children']
                if len(ch) > 2: raise ValueError
                out = []
                if ch: out += ino(ch[0])
                out.append(v)
                if len(ch) > 1: out += ino(ch[1])
                return out
            try:
                if a[0] in ('preorder', 'subtree'): exp = pre(x)
                elif a[0] == 'postorder': exp = post(x)
                elif a[0] == 'levelorder': exp = level(x)
                elif a[0] == 'descendants': exp = pre(x)[1:]
                elif a[0] == 'subtree_leaves': exp = [v for v in pre(x) if not nodes[v]['children']]
                else: exp = ino(x)
            except ValueError:
                exp = None
            except RecursionError:
                continue
            if exp is None:
                if l[0] != 'err':
                    bad.append((i, 'inorder accepted a node with more than two children')); break
            else:
                got = [int(v) for v in l[2:-1]] if l[0] == 'ok' else None
                if got != exp:
                    bad.append((i, '%s from %d: got %s expected %s' % (a[0], x, got, exp))); break
        return bad
