"""C16 - every Newick output format is the full output minus exactly the omitted fields; Nexus export"""
import vf, gen
from vf import Case
from checklib import PropCheck
from props.common import dump_of
from props.c01 import NAME_POOL, QUOTED, COMMENTS, canon, root_of

# format -> (names: all/leaf/none, lengths: all/leaf/internal/none, comments)
TABLE = {0: ('all', 'all', True), 1: ('none', 'none', False), 2: ('all', 'all', False), 3: ('all', 'none', False),
         4: ('none', 'all', False), 5: ('all', 'leaf', False), 6: ('leaf', 'leaf', False), 7: ('leaf', 'internal', False),
         8: ('leaf', 'all', False)}

def write(nodes, v, fmt):
    names, lens, comments = TABLE[fmt]
    n = nodes[v]
    tip = not n['children']
    s = ''
    if n['children']:
        s += '(' + ','.join(write(nodes, c, fmt) for c in n['children']) + ')'
    if n['name'] != '-' and (names == 'all' or (names == 'leaf' and tip)):
        s += vf.dec_str(n['name'])
    if n['pe'] != '-' and (lens == 'all' or (lens == 'leaf' and tip) or (lens == 'internal' and not tip)):
        s += ':' + gen.rust_display(vf.bits_f64(int(n['pe'][1:], 16)))
    if comments and n['comment'] != '-':
        s += '[' + vf.dec_str(n['comment']) + ']'
    return s

def erased(nodes, v, fmt):
    names, lens, comments = TABLE[fmt]
    n = nodes[v]
    tip = not n['children']
    nm = n['name'] if (names == 'all' or (names == 'leaf' and tip)) else '-'
    pe = n['pe'] if (lens == 'all' or (lens == 'leaf' and tip) or (lens == 'internal' and not tip)) else '-'
    cm = n['comment'] if comments else '-'
    return (nm, cm, pe, tuple(erased(nodes, c, fmt) for c in n['children']))

class Check(PropCheck):
    pid = 'C16'
    pure_predicate = True
    tol = 2.0 ** -50
    rule = ('9 formats x trees with every mixture of named/unnamed nodes, present/absent lengths and comments on leaves, internal nodes '
            'and the root, single nodes, unary chains, polytomies (parsed and API-built, also after edits); per format: text, re-parsed '
            'tree; Nexus export; non-trivial: tree has >= 2 nodes; distinct by op-list hash')

    def gen_cases(self):
        rng = self.rng
        cases = []
        nr = 400 if self.tier == 'quick' else 8000
        for j in range(nr):
            n = rng.choice([1, 2, 3, 4, 6, 9]) if rng.random() < 0.75 else rng.randint(10, 80)
            t = gen.rand_shape(rng, n, p_multi=rng.choice([0, 0.4]), p_unary=rng.choice([0, 0.25]))
            for i, nd in enumerate(t.nodes()):
                if rng.random() < 0.6:
                    nd.name = rng.choice(NAME_POOL[:9]) + str(i)
                    if rng.random() < 0.08:
                        nd.name = rng.choice(QUOTED)       # verbatim double-quoted labels (also the empty one and doubled quotes)
                if rng.random() < 0.35:
                    nd.comment = rng.choice(COMMENTS[:5])
                if rng.random() < 0.6:
                    nd.length = gen.exact_len(rng) if rng.random() < 0.7 else rng.choice([0.1, 2.5e-7, 1e22, 123456.789, 3.0, 1e-5])
            via_parser = rng.random() < 0.6
            if via_parser:
                ops = [gen.parse_op(gen.to_newick(t))]
            else:
                t.length = None
                ops = ['new'] + gen.build_ops(t)
            if rng.random() < 0.3:
                from props.c10 import edit_prefix
                ops += edit_prefix(rng, rng.randint(1, 3))
            ops += ['dump']
            for k in range(9):
                ops += ['to_fmt %d' % k, 'rt_fmt %d' % k]
            if rng.random() < 0.4:
                ops += ['partitions']        # a read-only query in between must not change the export
            ops += ['to_nexus', 'n_leaves', 'to_newick']
            cases.append(Case('c%d' % j, ops))
        return cases

    def nontrivial(self, case, il):
        for o, l in zip(case.ops, il):
            if o == 'dump':
                nodes = dump_of(l)
                return nodes is not None and len(nodes) >= 2
        return False

    def predicate(self, case, il):
        bad = []
        nodes = None
        nwk = None
        for i, (o, l) in enumerate(zip(case.ops, il)):
            a = o.split()
            if o == 'dump':
                nodes = dump_of(l)
                continue
            if nodes is None:
                continue
            if l and l[0] in ('panic', 'crash', 'hang'):
                return [(i, o + ' ' + l[0])]
            root = root_of(nodes)
            if a[0] == 'to_fmt':
                k = int(a[1])
                if l[0] != 'ok':
                    bad.append((i, 'format %d refused' % k)); break
                exp = write(nodes, root, k) + ';'
                if vf.dec_str(l[1]) != exp:
                    bad.append((i, 'format %d: text %r, expected %r' % (k, vf.dec_str(l[1])[:120], exp[:120]))); break
            elif a[0] == 'rt_fmt':
                k = int(a[1])
                if l[0] != 'ok':
                    bad.append((i, 'format %d does not parse back: %s' % (k, ' '.join(l[:2])))); break
                re_nodes = dump_of(['ok'] + l[2:])
                if re_nodes is None or canon(re_nodes, root_of(re_nodes)) != erased(nodes, root, k):
                    bad.append((i, 'format %d: parsing back does not give the tree carrying only the retained fields' % k)); break
            elif o == 'to_nexus':
                if l[0] != 'ok':
                    bad.append((i, 'nexus export refused')); break
                txt = vf.dec_str(l[1])
                tips = [n for n in nodes if n is not None and not n['children']]
                labels = ' '.join(vf.dec_str(n['name']) for n in tips if n['name'] != '-')
                full = write(nodes, root, 0) + ';'
                if ('NTAX=%d;' % len(tips)) not in txt or ('TAXLABELS %s;' % labels) not in txt or ('TREE tree1 = %s\n' % full) not in txt:
                    bad.append((i, 'nexus export does not embed the leaf count, the leaf labels and the full Newick text')); break
        return bad
