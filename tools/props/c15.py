"""C15 - UPGMA builds the correct ultrametric clustering tree"""
import itertools, math
from fractions import Fraction
import vf, gen
from vf import Case
from checklib import PropCheck
from props.common import dump_of, wf_check
from props.c08 import parse_dm, tril

def avg_linkage(names, D):
    """definitional average-linkage clustering over exact rationals.
    returns (list of (frozenset cluster, height), unambiguous flag, min relative gap)"""
    clusters = [frozenset([x]) for x in names]
    def dist(a, b):
        return sum((D[frozenset([x, y])] for x in a for y in b), Fraction(0)) / (len(a) * len(b))
    merges = []
    unamb = True
    while len(clusters) > 1:
        prs = [(dist(a, b), i, j) for i, a in enumerate(clusters) for j, b in enumerate(clusters) if j < i]
        dmin = min(p[0] for p in prs)
        best = [p for p in prs if p[0] == dmin]
        scale = max([abs(p[0]) for p in prs] + [Fraction(1, 10 ** 30)])
        near = [p for p in prs if abs(p[0] - dmin) <= Fraction(1, 10 ** 9) * scale]
        if len(near) > 1:
            unamb = False
        _, i, j = best[0]
        new = clusters[i] | clusters[j]
        merges.append((new, dmin / 2))
        clusters = [c for k, c in enumerate(clusters) if k not in (i, j)] + [new]
    return merges, unamb

class Check(PropCheck):
    pid = 'C15'
    pure_predicate = True      # (per-case caches in case.meta are recomputed lazily in the parent where needed)
    tol = 1e-9
    rule = ('EXHAUSTIVE integer matrices with entries 1..4 on 3 and 4 taxa (ties everywhere), a sample on 5 taxa; random tie-free matrices to '
            '25 (quick) / 80 (thorough) taxa; ultrametric matrices derived from random clock-like trees; arbitrary taxon order; compared with '
            'the exact-rational model run (which mirrors the tie-break) and with definitional average-linkage clustering; '
            'non-trivial: >= 3 taxa; distinct by op-list hash')

    def mat_case(self, cid, names, D, meta=None):
        n = len(names)
        vals = []
        for i in range(n):
            for j in range(i):
                vals.append(vf.enc_len(float(D[frozenset([names[i], names[j]])])))
        ops = ['m_new %d %s %s' % (n, ' '.join(vf.enc_str(x) for x in names), ' '.join(vals)), 'upgma', 'dump', 'to_newick', 'dm',
               'is_binary', 'is_rooted', 'sackin']
        m = {'names': names, 'D': D}
        m.update(meta or {})
        return Case(cid, ops, m)

    def gen_cases(self):
        rng = self.rng
        cases = []
        k = 0
        for n in (2, 3, 4):
            names = gen.default_names(n)
            prs = [frozenset(p) for p in itertools.combinations(names, 2)]
            vals = (0, 1, 2, 3) if n == 4 else (1, 2, 3, 4)
            combos = list(itertools.product(vals, repeat=len(prs)))
            if self.tier == 'quick' and len(combos) > 1500:
                combos = rng.sample(combos, 1500)
            for combo in combos:
                D = {p: Fraction(v) for p, v in zip(prs, combo)}
                nm = list(names); rng.shuffle(nm)
                cases.append(self.mat_case('e%d' % k, nm, D)); k += 1
        names = gen.default_names(5)
        prs = [frozenset(p) for p in itertools.combinations(names, 2)]
        for _ in range(500 if self.tier == 'quick' else 20000):
            D = {p: Fraction(rng.randint(0, 4)) for p in prs}
            nm = list(names); rng.shuffle(nm)
            cases.append(self.mat_case('e%d' % k, nm, D)); k += 1
        self.stats['small_integer_matrices'] = k
        # constant matrices, deterministically (all taxa identical / all equidistant): every minimum is a tie, retired cells must never win
        for n in (2, 3, 4, 5, 6, 7):
            for c in (0, 1, 3, Fraction(10) ** 300):
                names = gen.default_names(n)
                D = {frozenset(p): Fraction(c) for p in itertools.combinations(names, 2)}
                cases.append(self.mat_case('const%d_%d' % (n, min(int(c), 9)), names, D))
        # a matrix relabelled / permuted through set_taxa before clustering; taxon names containing blanks (legal through the API)
        for j in range(24 if self.tier == 'quick' else 400):
            n = rng.randint(3, 7)
            names = ['o%d' % i for i in range(n)]
            new_names = [rng.choice(['strain %d', 'iso\t%d', 'n%d', 'x %d y']) % i for i in range(n)]
            rng.shuffle(new_names)
            D = {frozenset(p): Fraction(rng.randint(1, 60), 4) for p in itertools.combinations(new_names, 2)}
            c = self.mat_case('rel%d' % j, new_names, D)
            if j % 2 == 0:
                # built under other names, then relabelled
                first = c.ops[0].split()
                c.ops = [' '.join(first[:2] + [vf.enc_str(x) for x in names] + first[2 + n:]), 'm_set_taxa ' + ' '.join(vf.enc_str(x) for x in new_names)] + c.ops[1:]
            cases.append(c)
        # all-equal matrix: the known rounding-level finding (KF4)
        for n in (4, 5):
            names = gen.default_names(n)
            D = {frozenset(p): Fraction(0.7) for p in itertools.combinations(names, 2)}
            cases.append(self.mat_case('kf4_%d' % n, names, D))
        # random tie-free
        for j in range(150 if self.tier == 'quick' else 3000):
            n = rng.randint(3, 25 if self.tier == 'quick' else 80)
            names = ['t%d' % i for i in range(n)]; rng.shuffle(names)
            D = {}
            for p in itertools.combinations(names, 2):
                D[frozenset(p)] = Fraction(rng.uniform(0.1, 10.0))
            cases.append(self.mat_case('r%d' % j, names, D))
        # more than 64 taxa (bit-set sized bookkeeping), and exact zero distances between distinct taxa
        for j in range(2 if self.tier == 'quick' else 12):
            n = rng.randint(65, 72)
            names = ['w%d' % i for i in range(n)]; rng.shuffle(names)
            D = {frozenset(p): Fraction(rng.randint(1, 400), 8) for p in itertools.combinations(names, 2)}
            cases.append(self.mat_case('big%d' % j, names, D))
        for j in range(60 if self.tier == 'quick' else 1000):
            n = rng.randint(3, 9)
            names = ['z%d' % i for i in range(n)]; rng.shuffle(names)
            D = {frozenset(p): (Fraction(0) if rng.random() < 0.25 else Fraction(rng.randint(1, 40), 4)) for p in itertools.combinations(names, 2)}
            cases.append(self.mat_case('z%d' % j, names, D))
        for j in range(40 if self.tier == 'quick' else 600):
            # unambiguous minima that are tiny on an absolute scale, or separated from another cell by less than 1e-15 relative
            n = rng.randint(3, 8)
            names = ['s%d' % i for i in range(n)]; rng.shuffle(names)
            scale = rng.choice([1e-20, 1e-17, 1.0, 1e-300])
            D = {}
            for p in itertools.combinations(names, 2):
                D[frozenset(p)] = Fraction(rng.uniform(0.5, 8.0) * scale)
            if scale == 1.0:
                prs = list(D)
                a, b = rng.sample(prs, 2)
                D[a] = Fraction(0.1 + 0.2); D[b] = Fraction(0.3)
            cases.append(self.mat_case('t%d' % j, names, D))
        # ultrametric from clock-like trees: heights increasing towards the root
        for j in range(100 if self.tier == 'quick' else 2000):
            n = rng.randint(3, 20 if self.tier == 'quick' else 60)
            names = ['u%d' % i for i in range(n)]
            t = gen.rand_shape(rng, n, p_multi=0.0)
            gen.name_leaves(t, names)
            # assign dyadic heights: leaves 0, internal = 1 + max(children) scaled
            def height(nd):
                if not nd.children:
                    return Fraction(0)
                return max(height(c) for c in nd.children) + Fraction(rng.randint(1, 8), 4)
            hs = {}
            def fill(nd):
                hs[id(nd)] = height(nd)
                for c in nd.children:
                    fill(c)
            # heights must be consistent: compute bottom-up once
            memo = {}
            def h(nd):
                if id(nd) in memo:
                    return memo[id(nd)]
                v = Fraction(0) if not nd.children else max(h(c) for c in nd.children) + Fraction(rng.randint(1, 8), 4)
                memo[id(nd)] = v
                return v
            h(t)
            D = {}
            def walk(nd):
                if not nd.children:
                    return [nd.name]
                groups = [walk(c) for c in nd.children]
                for a in range(len(groups)):
                    for b in range(a):
                        for x in groups[a]:
                            for y in groups[b]:
                                D[frozenset([x, y])] = 2 * memo[id(nd)]
                return [x for g in groups for x in g]
            walk(t)
            nm = list(names); rng.shuffle(nm)
            cases.append(self.mat_case('u%d' % j, nm, D, {'ultrametric': True}))
        return cases

    def ensure_meta(self, case):
        if 'names' in case.meta:
            return
        a = case.ops[0].split()
        n = int(a[1]); names = [vf.dec_str(x) for x in a[2:2 + n]]
        vals = [Fraction(vf.bits_f64(int(x[1:17], 16))) for x in a[2 + n:]]
        D = {}; k = 0
        for i in range(n):
            for j in range(i):
                D[frozenset([names[i], names[j]])] = vals[k]; k += 1
        case.meta['names'] = names; case.meta['D'] = D

    def nontrivial(self, case, il):
        self.ensure_meta(case)
        return len(case.meta['names']) >= 3

    def run_info(self, case):
        if 'info' not in case.meta:
            case.meta['info'] = avg_linkage(case.meta['names'], case.meta['D'])
        return case.meta['info']

    def known_finding(self, case, reasons):
        # KF4: a tie (or near tie) in the exact run and a negative length at rounding level
        self.ensure_meta(case)
        merges, unamb = self.run_info(case)
        if not unamb and all('negative branch length (rounding level)' in r[1] for r in reasons):
            return 'KF4'
        return None

    def ignore_disagreement(self, case, reasons):
        # with exact ties the float run may break a tie differently from the exact-rational model run (rounding of the weighted
        # average): the tie-dependent clauses are then not compared; the tie-independent ones are still evaluated by the predicate
        self.ensure_meta(case)
        merges, unamb = self.run_info(case)
        return not unamb

    def predicate(self, case, il):
        self.ensure_meta(case)
        names = case.meta['names']; D = case.meta['D']
        n = len(names)
        if case.ops[1].startswith('m_set_taxa'):
            il = il[1:]           # a relabelling step before the clustering: the remaining observations keep their places
        if il[1][0] in ('panic', 'crash', 'hang'):
            return [(1, 'upgma ' + il[1][0])]
        if il[1][0] != 'ok':
            return [(1, 'upgma refused a symmetric non-negative matrix on %d taxa' % n)]
        nodes = dump_of(il[2])
        if nodes is None:
            return [(2, 'no dump')]
        w = wf_check(nodes)
        if w:
            return [(2, 'result is not a well-formed tree: ' + '; '.join(w[:3]))]
        live = [x for x in nodes if x is not None]
        bad = []
        leaves = [x for x in live if not x['children']]
        if sorted(vf.dec_str(x['name']) for x in leaves if x['name'] != '-') != sorted(names) or len(leaves) != n:
            bad.append((2, 'leaves are not exactly the taxa'))
        if any(len(x['children']) not in (0, 2) for x in live):
            bad.append((2, 'not binary'))
        root = [x for x in live if x['parent'] is None][0]
        if bad:
            return bad
        maxd = max([float(v) for v in D.values()] + [1e-300])
        # lengths
        neg = None
        for x in live:
            if x['parent'] is None:
                continue
            if x['pe'] == '-':
                return [(2, 'a branch of the result has no length')]
            v = vf.bits_f64(int(x['pe'][1:], 16))
            if v < 0:
                if v >= -1e-12 * maxd:
                    neg = v
                else:
                    return [(2, 'negative branch length %r' % v)]
        # heights: every leaf below a node is at the same distance
        hts = {}
        def hgt(v):
            nd = nodes[v]
            if not nd['children']:
                hts[v] = 0.0; return 0.0, frozenset([vf.dec_str(nd['name'])])
            vals = []; cl = frozenset()
            for c in nd['children']:
                hc, sc = hgt(c)
                vals.append(hc + vf.bits_f64(int(nodes[c]['pe'][1:], 16))); cl |= sc
            if max(vals) - min(vals) > 1e-9 * maxd:
                bad.append((2, 'leaves below node %d are not equidistant from it (%r)' % (v, vals)))
            hts[v] = vals[0]
            clusters[cl] = vals[0]
            return vals[0], cl
        clusters = {}
        hgt(root['id'])
        if bad:
            return bad
        merges, unamb = self.run_info(case)
        if unamb:
            exp = {c: float(hh) for c, hh in merges}
            if set(exp) != set(clusters):
                bad.append((2, 'clusters differ from average-linkage clustering'))
            else:
                for c in exp:
                    if abs(exp[c] - clusters[c]) > 1e-9 * maxd:
                        bad.append((2, 'merge height of %s is %r, average linkage gives %r' % (sorted(c), clusters[c], exp[c]))); break
        if case.meta.get('ultrametric') and not bad:
            l = il[4]
            if l[0] != 'ok':
                bad.append((4, 'distance matrix of the result refused'))
            else:
                taxa, cells = parse_dm(l)
                for x in range(len(taxa)):
                    for y in range(x):
                        got = vf.fl(cells[tril(x, y)])
                        want = float(D[frozenset([taxa[x], taxa[y]])])
                        if abs(got - want) > 1e-9 * maxd:
                            bad.append((4, 'ultrametric input not reproduced: d(%s,%s) = %r, matrix says %r' % (taxa[x], taxa[y], got, want))); break
                    if bad:
                        break
        if neg is not None and not bad:
            bad.append((2, 'negative branch length (rounding level) %r' % neg))
        return bad
