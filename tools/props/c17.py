"""C17 - random tree generators return valid trees of the requested size"""
import vf, gen
from vf import Case
from checklib import PropCheck
from props.common import dump_of, wf_check

class Check(PropCheck):
    pid = 'C17'
    tol = None
    timeout = 30
    rule = ('n = 1..40 (quick) / 1..300 (thorough) x 3 shapes x 3 distributions x both length flags x seeds (seedable RNG hook); the '
            'random choices (which node is split at each step, the drawn lengths) are read back from the result and the model is re-run '
            'on them: it must accept them as an outcome of the real code and produce the identical arena, names included; '
            'plus aggregate runs (implementation only): minimum / maximum of > 4 million drawn lengths against the support; '
            'non-trivial: n >= 3; distinct by op-list hash')

    def gen_cases(self):
        rng = self.rng
        cases = []
        maxn = 40 if self.tier == 'quick' else 300
        seeds = 3 if self.tier == 'quick' else 12
        k = 0
        for n in list(range(0, 24)) + sorted(rng.sample(range(24, maxn + 1), min(12 if self.tier == 'quick' else 120, maxn - 23))):
            for shape in ('yule', 'caterpillar', 'ete3'):
                for distr in ('uniform', 'exponential', 'gamma'):
                    for brl in (0, 1):
                        if brl == 0 and distr != 'uniform':
                            continue
                        for s in range(seeds):
                            seed = rng.randint(0, 2 ** 40)
                            ops = ['gen %s %d %d %s %d' % (shape, n, brl, distr, seed), 'dump', 'n_leaves', 'is_binary', 'is_rooted', 'unique_tips', 'colless', 'size']
                            cases.append(Case('g%d' % k, ops, {'n': n, 'shape': shape, 'distr': distr, 'brl': brl})); k += 1
        # support of the drawn lengths on millions of draws (implementation only: aggregate minimum / maximum / counts)
        big = 1 if self.tier == 'quick' else 6
        for shape in ('yule', 'caterpillar', 'ete3'):
            for distr in ('uniform', 'exponential', 'gamma'):
                n = 1500 if shape != 'caterpillar' else 400
                reps = (350 if distr == 'uniform' else 60) * big
                seed = rng.randint(0, 2 ** 40)
                cases.append(Case('agg%d' % k, ['gen_stats %s %d 1 %s %d %d' % (shape, n, distr, seed, reps)],
                                  {'n': n, 'shape': shape, 'distr': distr, 'brl': 1, 'impl_only': True, 'reps': reps})); k += 1
        return cases

    lengths_sampled = 0
    def extra_coverage(self):
        return {'lengths_checked_against_support_in_aggregate_runs': self.lengths_sampled}

    def nontrivial(self, case, il):
        return case.meta['n'] >= 3

    def case_tol(self, case):
        return None

    def predicate(self, case, il):
        n = case.meta['n']; shape = case.meta['shape']; brl = case.meta['brl']; distr = case.meta['distr']
        if il and il[0][0] in ('panic', 'crash', 'hang'):
            return [(0, 'generator ' + il[0][0])]
        if n < 2:
            return []
        if case.cid.startswith('agg'):
            l = il[0]
            if l[0] != 'ok':
                return [(0, 'generator refused n = %d' % n)]
            cnt, missing, badshape, nonfinite = (int(x) for x in l[1:5])
            mn, mx = vf.bits_f64(int(l[5][1:], 16)), vf.bits_f64(int(l[6][1:], 16))
            self.lengths_sampled += cnt
            if badshape:
                return [(0, '%d generated trees do not have n leaves and 2n-1 nodes' % badshape)]
            if missing or cnt != case.meta['reps'] * (2 * n - 2):
                return [(0, 'a branch length is missing although lengths were requested')]
            lo_ok = (mn >= 0.002) if distr == 'uniform' else (mn >= 0.0 if distr == 'exponential' else mn > 0.0)
            hi_ok = (mx < 1.0) if distr == 'uniform' else True
            if nonfinite or not lo_ok or not hi_ok:
                return [(0, 'lengths in [%r, %r] (%d non-finite) outside the support of %s' % (mn, mx, nonfinite, distr))]
            return []
        if il[0][0] != 'ok':
            return [(0, 'generator refused n = %d' % n)]
        nodes = dump_of(il[1])
        if nodes is None:
            return [(1, 'no dump')]
        bad = []
        w = wf_check(nodes)
        if w:
            return [(1, 'generated tree is not well formed: ' + '; '.join(w[:3]))]
        live = [x for x in nodes if x is not None]
        leaves = [x for x in live if not x['children']]
        if len(leaves) != n:
            bad.append((1, '%d leaves for n = %d' % (len(leaves), n)))
        if len(live) != 2 * n - 1 or len(nodes) != 2 * n - 1:
            bad.append((1, '%d nodes for n = %d' % (len(live), n)))
        if any(len(x['children']) not in (0, 2) for x in live):
            bad.append((1, 'not strictly binary'))
        root = [x for x in live if x['parent'] is None]
        if len(root) != 1 or len(root[0]['children']) != 2:
            bad.append((1, 'not rooted'))
        names = [x['name'] for x in leaves]
        if '-' in names or len(set(names)) != len(names):
            bad.append((1, 'leaf names missing or not unique'))
        nonroot = [x for x in live if x['parent'] is not None]
        if brl:
            if any(x['pe'] == '-' for x in nonroot):
                bad.append((1, 'a branch length is missing although lengths were requested'))
            else:
                for x in nonroot:
                    v = vf.bits_f64(int(x['pe'][1:], 16))
                    okv = (0.002 <= v < 1.0) if distr == 'uniform' else (v >= 0.0 if distr == 'exponential' else v > 0.0)
                    if not okv or v != v or v == float('inf'):
                        bad.append((1, 'length %r outside the support of %s' % (v, distr))); break
        else:
            if any(x['pe'] != '-' for x in nonroot):
                bad.append((1, 'a branch length is present although none was requested'))
        if shape == 'caterpillar':
            if any(x['children'] and all(nodes[c]['children'] for c in x['children']) for x in live):
                bad.append((1, 'caterpillar: an internal node has no leaf child'))
            col = il[6]
            if col[0] != 'ok' or int(col[1]) != (n - 1) * (n - 2) // 2:
                bad.append((6, 'caterpillar: Colless index %s, maximal value is %d' % (col[1:], (n - 1) * (n - 2) // 2)))
        return bad
