"""C07 - weighted RF and branch-score distances match their definitions"""
import math
from fractions import Fraction
import vf, gen
from vf import Case
from checklib import PropCheck
from props.common import dump_of
from props.c05 import reorder, redraw_root
from props.c06 import nni_neighbour, pair_ops

def split_lengths(nodes):
    """non-trivial split -> exact sum of the lengths of all branches inducing it (None if one is missing)"""
    live = [n for n in nodes if n is not None]
    root = [n for n in live if n['parent'] is None][0]
    def leaves_under(v):
        n = nodes[v]
        if not n['children']:
            return [vf.dec_str(n['name'])]
        out = []
        for c in n['children']:
            out += leaves_under(c)
        return out
    full = frozenset(leaves_under(root['id']))
    out = {}
    for n in live:
        if n['parent'] is None or not n['children']:
            continue
        cl = frozenset(leaves_under(n['id']))
        if not (2 <= len(cl) <= len(full) - 2):
            continue
        key = frozenset([cl, full - cl])
        v = None if n['pe'] == '-' else vf.decode_num(n['pe']).v
        if key in out:
            out[key] = None if (out[key] is None or v is None) else out[key] + v
        else:
            out[key] = v
    return out

class Check(PropCheck):
    pid = 'C07'
    pure_predicate = True
    tol = None
    strict_err_ops = ('wrf', 'kf', 'cmp_topo', 'cmp_branch')
    rule = ('pairs of trees (NNI-like neighbours, reorderings, independent trees, both root styles, unary chains, two-child roots '
            'whose two branches induce one split) with every length present from the exact dyadic stream (zero included): bitwise '
            'agreement independent of HashMap order; plus a wild-float stream at 1e-9; rescaling of both trees by 2^k; pairs with a '
            'missing internal length; non-trivial: some split has a non-zero length difference or the pair is a refusal case')

    def gen_cases(self):
        rng = self.rng
        cases = []
        nr = 500 if self.tier == 'quick' else 12000
        for j in range(nr):
            n = rng.randint(4, 12) if rng.random() < 0.7 else rng.randint(12, 50 if self.tier == 'quick' else 150)
            names = ['t%d' % i for i in range(n)]
            mode = 'exact' if rng.random() < 0.8 else 'mod'
            t1 = gen.rand_tree(rng, n, mode, p_multi=rng.choice([0, 0.2]), p_unary=rng.choice([0, 0, 0.2]), internal_names=rng.choice([0.1, 0.1, 0.7]), names=names, collide=rng.choice([0, 0, 0.6]))
            r = rng.random()
            kind = 'pair'
            if r < 0.15:
                t2 = reorder(t1, rng); kind = 'reorder'
            elif r < 0.75:
                t2 = nni_neighbour(t1, rng); gen.assign_lengths(t2, rng, mode)
            else:
                t2 = gen.rand_tree(rng, n, mode, p_multi=0.2, internal_names=0.0, names=names)
            if r >= 0.75 and rng.random() < 0.5:
                # t1 := t2 with some internal branches contracted (possibly all: a star tree)
                t1 = t2.copy()
                pc = rng.choice([0.3, 0.6, 1.0])
                def contract(nd):
                    newc = []
                    for c in nd.children:
                        contract(c)
                        if c.children and rng.random() < pc:
                            newc += c.children
                        else:
                            newc.append(c)
                    nd.children = newc
                contract(t1)
                gen.assign_lengths(t1, rng, mode)
                if rng.random() < 0.5:
                    t1, t2 = t2, t1
                kind = 'pair'
            if r < 0.75 and r >= 0.6:
                # same topology, lengths one ulp apart or on a tiny scale
                import math
                t2 = t1.copy()
                tiny = rng.random() < 0.4
                for n1, n2 in zip(t1.nodes()[1:], t2.nodes()[1:]):
                    if n1.length is None:
                        continue
                    if tiny:
                        n1.length = n1.length * 1e-17; n2.length = n1.length * rng.choice([1.0, 3.0, 0.0])
                    elif rng.random() < 0.5:
                        n2.length = math.nextafter(n1.length, math.inf)
                mode = 'mod'; kind = 'pair'
            if rng.random() < 0.3 and kind != 'reorder':
                t2 = redraw_root(t2); gen.assign_lengths(t2, rng, mode)
            lens_all = [abs(x.length) for x in t1.nodes() + t2.nodes() if x.length is not None]
            # inexact stream: errors are relative to the magnitude of the lengths involved (differences of nearly equal sums cancel)
            meta = {'kind': kind, 'tol': None if mode == 'exact' else 1e-9, 'abs_scale': (max(lens_all) * len(lens_all) * 16 if lens_all else 1.0)}
            if rng.random() < 0.12 and kind == 'pair':
                # drop one internal length -> refusal
                inner = [x for x in t1.nodes()[1:] if x.children]
                if inner:
                    rng.choice(inner).length = None
                    meta['kind'] = 'missing'
            q0 = ['wrf 1', 'kf 1', 'cmp_topo 1', 'cmp_branch 1 0', 'cmp_branch 1 1']
            q1 = ['wrf 0', 'kf 0', 'cmp_topo 0']
            ops = pair_ops(t1, t2, q0, q1)
            if meta['kind'] != 'missing' and rng.random() < 0.4:
                f = 2.0 ** rng.randint(-3, 3)
                rc = ['reset_cache'] if rng.random() < 0.3 else []
                ops += ['sel 0', 'rescale ' + vf.enc_len(f)] + rc + ['sel 1', 'rescale ' + vf.enc_len(f)] + rc + ['sel 0', 'wrf 1', 'kf 1', 'cmp_topo 1']
                meta['factor'] = f
            cases.append(Case('c%d' % j, ops, meta))
        return cases

    def nontrivial(self, case, il):
        if case.meta.get('kind') == 'missing':
            return True
        for o, l in zip(case.ops, il):
            if o == 'wrf 1' and l[0] == 'ok':
                return vf.fl(l[1]) != 0.0
        return False

    def predicate(self, case, il):
        bad = []
        kind = case.meta.get('kind')
        tol = case.meta.get('tol')
        dumps = []
        vals = {}
        cur = None
        seen_rescale = False
        for i, (o, l) in enumerate(zip(case.ops, il)):
            a = o.split()
            if a[0] == 'sel':
                cur = int(a[1])
            elif o == 'dump':
                dumps.append(dump_of(l))
            elif a[0] == 'rescale':
                seen_rescale = True
            elif a[0] in ('wrf', 'kf', 'cmp_topo', 'cmp_branch'):
                if l[0] in ('panic', 'crash', 'hang'):
                    return [(i, o + ' ' + l[0])]
                vals[(o, cur, seen_rescale)] = (i, l)
        if len(dumps) < 2 or dumps[0] is None or dumps[1] is None:
            return bad
        L1, L2 = split_lengths(dumps[0]), split_lengths(dumps[1])
        if kind == 'missing':
            for key, (i, l) in vals.items():
                if key[0].startswith('cmp_branch 1 1'):
                    continue
                if any(v is None for v in L1.values()) or any(v is None for v in L2.values()):
                    if not (l[0] == 'err' and l[1] == 'MissingBranchLengths'):
                        bad.append((i, 'missing internal length did not yield the missing-length error: ' + ' '.join(l[:2]))); break
            return bad
        if any(v is None for v in L1.values()) or any(v is None for v in L2.values()):
            return bad
        keys = set(L1) | set(L2)
        wrf = sum((abs(L1.get(k, Fraction(0)) - L2.get(k, Fraction(0))) for k in keys), Fraction(0))
        kf2 = sum(((L1.get(k, Fraction(0)) - L2.get(k, Fraction(0))) ** 2 for k in keys), Fraction(0))
        def chk(name, key, expected, sqrt=False):
            v = vals.get(key)
            if v is None:
                return
            i, l = v
            if l[0] != 'ok':
                bad.append((i, '%s refused although every length is present: %s' % (name, ' '.join(l[:2])))); return
            x = vf.fl(l[1])
            e = math.sqrt(float(expected)) if sqrt else float(expected)
            if sqrt or tol:
                okv = abs(x - e) <= 1e-9 * max(abs(e), 1e-300, float(wrf), (case.meta.get('abs_scale', 0.0) if tol else 0.0))
            else:
                okv = Fraction(x) == expected
            if not okv:
                bad.append((i, '%s = %r, definition gives %r' % (name, x, e)))
        chk('weighted RF', ('wrf 1', 0, False), wrf)
        chk('weighted RF (reversed)', ('wrf 0', 1, False), wrf)
        chk('branch score', ('kf 1', 0, False), kf2, sqrt=True)
        chk('branch score (reversed)', ('kf 0', 1, False), kf2, sqrt=True)
        f = case.meta.get('factor')
        if f is not None:
            chk('weighted RF after rescaling', ('wrf 1', 0, True), wrf * Fraction(abs(f)))
            chk('branch score after rescaling', ('kf 1', 0, True), kf2 * Fraction(f) ** 2, sqrt=True)
        if kind == 'reorder':
            v = vals.get(('wrf 1', 0, False))
            # exact (dyadic) lengths: exactly zero; inexact lengths: a split carried by several branches (unary chains, the two root
            # branches) is summed in arena order, which a reordering changes - zero up to the rounding of those sums
            if v and v[1][0] == 'ok' and (vf.fl(v[1][1]) != 0.0 if not tol else abs(vf.fl(v[1][1])) > 1e-12 * case.meta.get('abs_scale', 1.0)):
                bad.append((v[0], 'weighted RF against a reordering of itself is not zero'))
        for key in (('cmp_topo 1', 0, False), ('cmp_topo 0', 1, False)):
            ct = vals.get(key)
            if ct and ct[1][0] == 'ok':
                x = vf.fl(ct[1][3])
                if (Fraction(x) != wrf) if not tol else abs(x - float(wrf)) > 1e-9 * max(float(wrf), 1e-300, case.meta.get('abs_scale', 0.0)):
                    bad.append((ct[0], 'combined report weighted RF %r differs from the definition %r' % (x, float(wrf))))
                y = vf.fl(ct[1][4])
                if abs(y - math.sqrt(float(kf2))) > 1e-9 * max(math.sqrt(float(kf2)), 1e-300, float(wrf), (case.meta.get('abs_scale', 0.0) if tol else 0.0)):
                    bad.append((ct[0], 'combined report branch score %r differs from the definition %r' % (y, math.sqrt(float(kf2)))))
        if f is not None:
            ct = vals.get(('cmp_topo 1', 0, True))
            if ct and ct[1][0] == 'ok':
                x = vf.fl(ct[1][3]); e = float(wrf * Fraction(abs(f)))
                if abs(x - e) > 1e-9 * max(e, 1e-300, case.meta.get('abs_scale', 0.0) * abs(f)):
                    bad.append((ct[0], 'combined report after rescaling: weighted RF %r, expected %r' % (x, e)))
        cb = vals.get(('cmp_branch 1 0', 0, False))
        if cb and cb[1][0] == 'ok' and not tol:
            segs = vf.split_sets(cb[1][1:])
            if len(segs) == 3:
                def lens(items, idx):
                    return sorted(vf.decode_num(it[idx]).v for it in items)
                only1 = sorted(L1[k] for k in set(L1) - set(L2)); only2 = sorted(L2[k] for k in set(L2) - set(L1))
                common = sorted((L1[k], L2[k]) for k in set(L1) & set(L2))
                got1 = lens(segs[0][1], 1); got2 = lens(segs[1][1], 1)
                gotc = sorted((vf.decode_num(it[1]).v, vf.decode_num(it[3]).v) for it in segs[2][1])
                if got1 != only1 or got2 != only2 or gotc != common:
                    bad.append((cb[0], 'branch listing does not contain exactly the same splits and lengths'))
        return bad
