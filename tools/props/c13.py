"""C13 - distance-matrix storage is a faithful symmetric table"""
import vf, gen
from vf import Case
from checklib import PropCheck

PMAX = 47453132      # T(p) < 2^50 for p < PMAX

class Check(PropCheck):
    pid = 'C13'
    timeout = 1200
    rule = ('EXHAUSTIVE over all cells for every size n = 1..24 (quick) / 1..64 (thorough): every cell set to a distinct value, every ordered '
            'pair read, iter / indexed_iter / to_map / min / max, then overwrite sequences; through the hook: the float inverse against the '
            'integer inverse around every triangular number T(p) (p < 2^21 plus a stride to 2^50 quick; every p with T(p) < 2^50 thorough), '
            'and sampled linear indices < 2^50 compared with the model over N; non-trivial: n >= 3 or a hook sweep; distinct by op-list hash')

    def gen_cases(self):
        rng = self.rng
        cases = []
        maxn = 24 if self.tier == 'quick' else 64
        for n in range(0, maxn + 1):
            taxa = ['x%d' % i for i in range(n)]
            rng.shuffle(taxa)
            cells = n * (n - 1) // 2
            vals = list(range(1, cells + 1)); rng.shuffle(vals)
            ops = ['m_new %d %s %s' % (n, ' '.join(vf.enc_str(x) for x in taxa), ' '.join(vf.enc_len(float(v)) for v in vals)),
                   'm_dump', 'm_iter', 'm_indexed', 'm_to_map', 'm_min', 'm_max']
            for a in taxa:
                for b in taxa:
                    ops.append('m_get %s %s' % (vf.enc_str(a), vf.enc_str(b)))
            ops.append('m_get %s %s' % (vf.enc_str('nope'), vf.enc_str(taxa[0] if taxa else 'q')))
            # overwrite a few pairs, re-read everything
            for q in range(min(6, cells)):
                a, b = rng.sample(taxa, 2)
                v = [float(rng.randint(1000, 2000)) / 4, 0.0, -0.0][q % 3]
                ops.append('m_set %s %s %s' % (vf.enc_str(a), vf.enc_str(b), vf.enc_len(v)))
            if taxa:
                ops.append('m_set %s %s %s' % (vf.enc_str(taxa[0]), vf.enc_str(taxa[0]), vf.enc_len(0.0)))
                ops.append('m_set %s %s %s' % (vf.enc_str(taxa[0]), vf.enc_str(taxa[0]), vf.enc_len(1.0)))
            ops += ['m_dump', 'm_to_map', 'm_min', 'm_max']
            for a in taxa[:12]:
                for b in taxa[:12]:
                    ops.append('m_get %s %s' % (vf.enc_str(a), vf.enc_str(b)))
            if n >= 2:
                # second set_taxa with the same names in another order: by-name access must follow the new positions
                perm = list(taxa); rng.shuffle(perm)
                ops.append('m_set_taxa ' + ' '.join(vf.enc_str(x) for x in perm))
                ops += ['m_dump', 'm_to_map', 'm_min', 'm_max', 'm_indexed']
                for a in perm[:10]:
                    for b in perm[:10]:
                        ops.append('m_get %s %s' % (vf.enc_str(a), vf.enc_str(b)))
                ops.append('m_taxa_index %s' % vf.enc_str(perm[0]))
                # a refused relabelling (wrong number of names) must leave the labels, and so every by-name read, unchanged
                wrong = (perm[1:] + [perm[0]] + ['extra']) if n % 2 else perm[1:]
                ops.append('m_set_taxa ' + ' '.join(vf.enc_str(x) for x in wrong))
                ops += ['m_dump', 'm_to_map']
                for a in perm[:6]:
                    for b in perm[:6]:
                        ops.append('m_get %s %s' % (vf.enc_str(a), vf.enc_str(b)))
            cases.append(Case('n%d' % n, ops, {'n': n}))
        # value / name classes: names that differ only in case or are prefixes of each other, numeric-looking and non-ASCII names;
        # cells that are all +inf / all -inf / all equal / huge / subnormal (minimum and maximum search against pairwise reads)
        import math
        name_sets = [['abc1', 'ABC1', 'Abc1', 'out'], ['x', 'xy', 'xyz', 'X'], ['1', '01', '1.0', '1e0'], ['é', 'É', 'e', 'E', 'ε'],
                     ['t0'], ['a', 'A'], ['Tip_1', 'tip_1', 'TIP_1', 'Tip_10', 'Tip_01']]
        val_sets = [lambda k: math.inf, lambda k: -math.inf, lambda k: 2.5, lambda k: 1e308 * (1 + k % 2), lambda k: 5e-324 * (k + 1),
                    lambda k: float(k + 1), lambda k: [math.inf, 1.0, -math.inf][k % 3], lambda k: -float(k)]
        for si, names in enumerate(name_sets):
            for vi, vf_ in enumerate(val_sets):
                n = len(names); cells = n * (n - 1) // 2
                vals = [vf_(k) for k in range(cells)]
                ops = ['m_new %d %s %s' % (n, ' '.join(vf.enc_str(x) for x in names), ' '.join(vf.enc_len(v) for v in vals)),
                       'm_dump', 'm_iter', 'm_indexed', 'm_to_map', 'm_min', 'm_max']
                for a in names:
                    for b in names:
                        ops.append('m_get %s %s' % (vf.enc_str(a), vf.enc_str(b)))
                if n >= 2:
                    a, b = names[0], names[1]
                    ops.append('m_set %s %s %s' % (vf.enc_str(a), vf.enc_str(b), vf.enc_len(7.25)))
                    ops.append('m_set %s %s %s' % (vf.enc_str(names[-1]), vf.enc_str(a), vf.enc_len(-3.5)))
                    ops += ['m_dump', 'm_to_map', 'm_min', 'm_max']
                    for x in names:
                        for y in names:
                            ops.append('m_get %s %s' % (vf.enc_str(x), vf.enc_str(y)))
                ops.append('m_taxa_index %s' % vf.enc_str(names[-1]))
                ops.append('m_taxa_index %s' % vf.enc_str(names[0].swapcase()))
                cases.append(Case('cls%d_%d' % (si, vi), ops, {'n': max(n, 3), 'distinct': False}))
        # large matrices (implementation only): every index pair reported by indexed_iter against the integer inverse, f32 and f64 cells
        # (a size beyond 4608 has more cells than an f32 can count exactly)
        bigs = [('m32_', 4609), ('m32_', 5000), ('m32_', 7001), ('m_', 4609), ('m_', 6000)]
        if self.tier != 'quick':
            bigs += [('m32_', 12000), ('m32_', 16000), ('m_', 12000), ('m_', 16000)]
        for bi, (pre, sz) in enumerate(bigs):
            cases.append(Case('big%d' % bi, ['%sindexed_check %d' % (pre, sz)], {'impl_only': True, 'n': 99, 'big': sz}))
        # hook: index functions on big indices against the model (N arithmetic)
        ops = []
        for _ in range(600 if self.tier == 'quick' else 6000):
            r = rng.random()
            if r < 0.4:
                p = rng.randint(1, PMAX - 1); k = p * (p + 1) // 2 + rng.choice([-1, 0, 1])
            elif r < 0.7:
                k = rng.randint(0, 2 ** 50 - 1)
            else:
                k = rng.randint(0, 10 ** 6)
            ops.append('rowvec 0 %d' % k)
            i = rng.randint(1, PMAX - 1); j = rng.randint(0, i - 1)
            if rng.random() < 0.5:
                i, j = j, i
            ops.append('tril 0 %d %d' % (i, j))
        cases.append(Case('hook_samples', ops, {'n': 99}))
        # hook: sweeps (implementation only; the oracle is the u128 integer square root inside the harness)
        if self.tier == 'quick':
            sweeps = [(0, 2 ** 21, 1)] + [(2 ** 21 + s, PMAX, 997) for s in range(0, 16)]
        else:
            chunk = PMAX // 64 + 1
            sweeps = [(lo, min(PMAX, lo + chunk), 1) for lo in range(0, PMAX, chunk)]
        for si, (lo, hi, st) in enumerate(sweeps):
            cases.append(Case('sweep%d' % si, ['rowvec_sweep %d %d %d' % (lo, hi, st)], {'impl_only': True, 'n': 99}))
        self.stats['sweep_ranges'] = len(sweeps)
        return cases

    def nontrivial(self, case, il):
        return case.meta.get('n', 0) >= 3

    swept = 0
    big_cells = 0
    def extra_coverage(self):
        return {'float_inverse_indices_checked_by_sweep': self.swept, 'cells_of_large_matrices_checked_through_indexed_iter': self.big_cells}

    def predicate(self, case, il):
        bad = []
        if case.cid.startswith('sweep'):
            l = il[0] if il else ['?']
            if l[0] != 'ok':
                return [(0, 'sweep ' + l[0])]
            self.swept += int(l[1])
            if int(l[2]) != 0:
                return [(0, 'float inverse of the triangular index differs from the integer inverse at linear index %s (%s mismatches)' % (l[3], l[2]))]
            return []
        if case.cid == 'hook_samples':
            return []
        if case.cid.startswith('big'):
            l = il[0] if il else ['?']
            sz = case.meta['big']
            if l[0] != 'ok':
                return [(0, 'indexed iteration over a matrix of size %d: %s' % (sz, l[0]))]
            if int(l[1]) != sz * (sz - 1) // 2 or int(l[2]) != 0:
                return [(0, 'indexed iteration over a matrix of size %d: %s cells, %s with a wrong index pair (first: %s)' % (sz, l[1], l[2], l[3]))]
            self.big_cells += int(l[1])
            return []
        # storage laws on the implementation's own answers
        taxa = None; cells = None
        table = {}
        for i, (o, l) in enumerate(zip(case.ops, il)):
            a = o.split()
            if l and l[0] in ('panic', 'crash', 'hang'):
                return [(i, o[:40] + ' ' + l[0])]
            if a[0] == 'm_new':
                n = int(a[1]); taxa = [vf.dec_str(x) for x in a[2:2 + n]]
                table = {}
            elif a[0] == 'm_dump' and l[0] == 'ok':
                pass
            elif a[0] == 'm_set_taxa':
                break
            elif a[0] == 'm_set' and l[0] == 'ok':
                x, y = vf.dec_str(a[1]), vf.dec_str(a[2])
                if x != y:
                    table[frozenset([x, y])] = vf.decode_num('f' + a[3][1:17]).v
            elif a[0] == 'm_get':
                x, y = vf.dec_str(a[1]), vf.dec_str(a[2])
                if x not in taxa or y not in taxa:
                    if x != y and l[0] != 'err':
                        bad.append((i, 'unknown taxon read without error')); break
                    continue
                if l[0] != 'ok':
                    bad.append((i, 'get(%s,%s) failed' % (x, y))); break
                v = vf.decode_num(l[1]).v
                if x == y:
                    if v != 0:
                        bad.append((i, 'identical taxa read %s' % v)); break
                else:
                    key = frozenset([x, y])
                    if key in table and table[key] != v:
                        bad.append((i, 'value set for {%s,%s} is %s but %s is read' % (x, y, table[key], v))); break
        # pair <-> cell bijection from the first dump + gets: distinct initial values must be read for exactly one unordered pair
        first_gets = {}
        seen_set = False
        for o, l in zip(case.ops, il):
            a = o.split()
            if a[0] == 'm_set':
                seen_set = True
            if a[0] == 'm_get' and not seen_set and l[0] == 'ok':
                x, y = vf.dec_str(a[1]), vf.dec_str(a[2])
                if x != y and x in taxa and y in taxa:
                    first_gets.setdefault(l[1], set()).add(frozenset([x, y]))
        if not bad and case.meta.get('distinct', True):
            for v, prs in first_gets.items():
                if len(prs) != 1:
                    bad.append((0, 'stored value %s is read for %d different pairs' % (v, len(prs)))); break
            n = len(taxa or [])
            if not bad and n >= 2 and len(first_gets) != n * (n - 1) // 2:
                bad.append((0, '%d distinct cells for %d pairs' % (len(first_gets), n * (n - 1) // 2)))
        return bad
