"""C05 - bipartitions are exactly the non-trivial splits of the leaf set"""
import itertools
import vf, gen
from vf import Case
from checklib import PropCheck
from props.common import dump_of

def reorder(t, rng):
    t = t.copy()
    for nd in t.nodes():
        rng.shuffle(nd.children)
    return t

def add_unary(t, rng, k=1):
    t = t.copy()
    for _ in range(k):
        nodes = t.nodes()
        nd = rng.choice(nodes)
        if nd.children:
            i = rng.randrange(len(nd.children))
            nd.children[i] = gen.T(children=[nd.children[i]])
        else:
            # a unary node above a leaf: turn the leaf into unary-internal + leaf
            nm = nd.name; nd.name = None
            nd.children = [gen.T(name=nm)]
    return t

def redraw_root(t):
    """2-child root -> 3+-child root (same unrooted tree), or the converse"""
    t = t.copy()
    if len(t.children) == 2:
        a, b = t.children
        if b.children:
            t.children = [a] + b.children
        elif a.children:
            t.children = a.children + [b]
    elif len(t.children) >= 3:
        t.children = [t.children[0], gen.T(children=t.children[1:])]
    return t

def rename(t, mapping):
    t = t.copy()
    for l in t.leaves():
        l.name = mapping[l.name]
    return t

def splits_of_dump(nodes):
    """expected non-trivial splits (as frozenset of two frozensets of names) from an arena dump"""
    live = [n for n in nodes if n is not None]
    def leaves_under(v):
        n = nodes[v]
        if not n['children']:
            return [vf.dec_str(n['name']) if n['name'] != '-' else None]
        out = []
        for c in n['children']:
            out += leaves_under(c)
        return out
    root = [n for n in live if n['parent'] is None][0]['id']
    allv = leaves_under(root)
    S = set()
    full = frozenset(allv)
    for n in live:
        if n['parent'] is None or not n['children']:
            continue
        cl = frozenset(leaves_under(n['id']))
        if 2 <= len(cl) <= len(full) - 2:
            S.add(frozenset([cl, full - cl]))
    return S, sorted(allv)

def decode_partitions(line, names_sorted):
    """-> list of (frozenset split, p2l string) from an `ok { b.. s.. ; ...}` line"""
    toks = line[1:]
    out = []
    i = 1
    while i < len(toks) and toks[i] != '}':
        b = toks[i][1:]; s = toks[i + 1]
        side = frozenset(names_sorted[k] for k, c in enumerate(b) if c == '1')
        out.append((frozenset([side, frozenset(names_sorted) - side]), vf.dec_str(s) if s[0] == 's' else None, side, b))
        i += 2
        if i < len(toks) and toks[i] == ';':
            i += 1
    return out

class Check(PropCheck):
    pid = 'C05'
    pure_predicate = True
    rule = ('EXHAUSTIVE: every ordered rooted shape with <= 5 (quick) / 6 (thorough) leaves x EVERY permutation of the leaf names '
            '(two alphabets: letters, Tip_10-style), each with variants: children reordered, unary nodes inserted, root redrawn '
            '(2-child <-> 3-child), taxa renamed; plus random trees to 40 / 300 leaves (crossing the 32-bit block boundary); '
            'non-trivial: tree has >= 1 internal non-root branch; distinct by op-list hash')

    def variants(self, t, rng, names):
        un = add_unary(t, rng, rng.randint(1, 2))
        if rng.random() < 0.4:
            # unary node(s) above the real root
            for _ in range(rng.randint(1, 2)):
                un = gen.T(children=[un])
        vs = [t, reorder(t, rng), un, redraw_root(t)]
        perm = list(names); rng.shuffle(perm)
        mapping = dict(zip(names, perm))
        vs.append(rename(t, mapping))
        return vs, mapping

    def gen_cases(self):
        rng = self.rng
        cases = []
        maxn = 5 if self.tier == 'quick' else 6
        k = 0
        for n in range(2, maxn + 1):
            for sh in gen.all_shapes(n):
                for style in (0, 1, 2):
                    base = gen.default_names(n) if style == 0 else ['Tip_%d' % (i + 8) for i in range(n)]
                    if style == 2:
                        base = ['a', 'B', 'c', 'D', 'e', 'F'][:n]       # mixed case: byte order differs from case-insensitive order
                    perms = list(itertools.permutations(base))
                    if style >= 1 or (n == 6):
                        perms = rng.sample(perms, min(len(perms), 12))
                    for perm in perms:
                        t = sh.copy(); gen.name_leaves(t, list(perm))
                        if rng.random() < 0.3:
                            gen.name_internals(t, rng, 0.8, 0.6)
                        vs, mapping = self.variants(t, rng, list(perm))
                        ops = []
                        for vi, v in enumerate(vs):
                            ops += ['sel %d' % vi, gen.parse_op(gen.to_newick(v)), 'dump', 'partitions']
                        cases.append(Case('x%d' % k, ops, {'mapping': mapping})); k += 1
        self.stats['exhaustive_cases'] = k
        nr = 150 if self.tier == 'quick' else 3000
        for j in range(nr):
            n = rng.randint(4, 40 if self.tier == 'quick' else 300)
            if rng.random() < 0.2:
                n = rng.randint(30, 36)
            r0 = rng.random()
            names = ['t%d' % i for i in range(n)] if r0 < 0.4 else (['Tip_%d' % i for i in range(n)] if r0 < 0.7 else
                     [('x%d' if i % 2 else 'X%d') % i for i in range(n)] if r0 < 0.85 else [chr(ord('a') + (i % 26)).upper() * (i % 2) + chr(ord('a') + (i % 26)) * (1 - i % 2) + str(i // 26) for i in range(n)])
            t = gen.rand_tree(rng, n, 'none', p_multi=rng.choice([0, 0.3]), p_unary=0.0, internal_names=rng.choice([0.2, 0.8]), names=names, collide=rng.choice([0, 0.4]))
            vs, mapping = self.variants(t, rng, names)
            ops = []
            for vi, v in enumerate(vs):
                ops += ['sel %d' % vi, gen.parse_op(gen.to_newick(v)), 'dump', 'partitions']
            cases.append(Case('r%d' % j, ops, {'mapping': mapping}))
        for j in range(60 if self.tier == 'quick' else 1000):
            # a refused operation must leave nothing behind: prune, add_child on the removed id (refused), bipartitions
            n = rng.randint(4, 10)
            names = ['f%d' % i for i in range(n)]
            t = gen.rand_tree(rng, n, 'none', p_multi=0.2, internal_names=0.3, names=names)
            ops = ['sel 0', gen.parse_op(gen.to_newick(t)), 'pick leaf %d' % rng.randint(0, 10 ** 6), 'prune $0',
                   'add_child $0 %s - -' % vf.enc_str('ghost'), 'merge $0 $0 - - - -', 'compress', 'dump', 'partitions']
            cases.append(Case('g%d' % j, ops, {'rename_seq': False, 'single': True}))
        for j in range(60 if self.tier == 'quick' else 1000):
            # a refused weighted comparison (one informative branch lacks its length) must leave the split cache usable
            n = rng.randint(4, 10)
            names = ['w%d' % i for i in range(n)]
            t = gen.rand_tree(rng, n, 'exact', p_multi=0.2, internal_names=0.3, names=names)
            inner = [x for x in t.nodes()[1:] if x.children]
            if inner:
                rng.choice(inner).length = None
            ops = ['sel 0', gen.parse_op(gen.to_newick(t))] + (['partitions'] if rng.random() < 0.5 else [])
            ops += rng.sample(['wrf 0', 'kf 0', 'cmp_topo 0', 'cmp_branch 0 1', 'cmp_branch 0 0'], rng.randint(1, 3)) + ['dump', 'partitions']
            cases.append(Case('q%d' % j, ops, {'rename_seq': False, 'single': True}))
        for j in range(80 if self.tier == 'quick' else 1500):
            n = rng.randint(4, 12)
            names = ['m%02d' % i for i in range(n)]
            t = gen.rand_tree(rng, n, 'none', p_multi=0.2, internal_names=0.0, names=names)
            victim = rng.choice(names); new = rng.choice(['zz', 'a', 'm05x', 'M'])
            t2 = rename(t, dict((x, new if x == victim else x) for x in names))
            how = rng.choice(['rename_by_name %s %s' % (vf.enc_str(victim), vf.enc_str(new)), 'SETNAME'])
            ops = ['sel 0', gen.parse_op(gen.to_newick(t)), 'partitions']
            if how == 'SETNAME':
                ops += ['get_by_name %s' % vf.enc_str(victim), 'pick byname 0', 'set_name $0 %s' % vf.enc_str(new)]
                ops[-2] = 'pick live %d' % rng.randint(0, 10 ** 6)      # any live node: internal nodes may be renamed too
                ops[-1] = 'set_name $0 %s' % vf.enc_str(new)
                ops = ops[:3] + ['rename_by_name %s %s' % (vf.enc_str(victim), vf.enc_str(new))]
            else:
                ops += [how]
            ops += ['dump', 'partitions', 'sel 1', gen.parse_op(gen.to_newick(t2)), 'dump', 'partitions']
            cases.append(Case('n%d' % j, ops, {'rename_seq': True}))
        return cases

    def nontrivial(self, case, il):
        for o, l in zip(case.ops, il):
            if o == 'partitions':
                return l[0] == 'ok' and len(l) > 3
        return False

    def predicate(self, case, il):
        bad = []
        nodes = None
        sets = []
        for i, (o, l) in enumerate(zip(case.ops, il)):
            if o == 'dump':
                nodes = dump_of(l)
            elif o == 'partitions' and nodes is not None:
                if l[0] != 'ok':
                    bad.append((i, 'bipartitions refused on a tree with uniquely named leaves: ' + ' '.join(l[:2]))); break
                exp, names_sorted = splits_of_dump(nodes)
                got = decode_partitions(l, names_sorted)
                gs = [g[0] for g in got]
                if len(set(gs)) != len(gs):
                    bad.append((i, 'a split is reported twice')); break
                if set(gs) != exp:
                    extra = [sorted(min(s, key=len)) for s in set(gs) - exp][:2]
                    miss = [sorted(min(s, key=len)) for s in exp - set(gs)][:2]
                    bad.append((i, 'reported splits differ from the non-trivial splits: extra %s missing %s' % (extra, miss))); break
                for sp, txt, side, b in got:
                    if txt != ''.join(sorted(side)):
                        bad.append((i, 'partition_to_leaves(%s) = %r does not list one side' % (b, txt))); break
                sets.append(set(gs))
        if not bad and case.meta.get('rename_seq') and len(sets) >= 2:
            if sets[-1] != sets[-2]:
                bad.append((len(case.ops) - 1, 'bipartitions after renaming a leaf differ from those of a freshly parsed copy of the renamed tree'))
        if not bad and len(sets) == 5 and not case.meta.get('rename_seq'):
            m = case.meta.get('mapping')
            if not (sets[0] == sets[1] == sets[2] == sets[3]):
                bad.append((len(case.ops) - 1, 'split set changed under child reordering / unary nodes / root redrawing'))
            elif m is not None:
                mapped = set(frozenset(frozenset(m[x] for x in side) for side in sp) for sp in sets[0])
                if mapped != sets[4]:
                    bad.append((len(case.ops) - 1, 'split set not equivariant under renaming'))
        return bad
