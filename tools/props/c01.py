"""C01 - Newick write-then-parse round trip is lossless"""
import math
import vf, gen
from vf import Case
from checklib import PropCheck
from props.common import dump_of
from props.c10 import edit_prefix

NAME_POOL = ['A', 'B', 'taxon_1', 'Homo_sapiens', 'x.y', '12', '1e5', '-', 'é中', '\U0001F600', 'a|b', "it's", 'A#1', '&&', '0.5', 'inf',
             'a\\b', 'C\\', '\\n', 'p%q', 'k=v', '{x}', 'a/b', '<t>', 'q?', '!', '@', '$1', '~', '^', '*', '`', '+', 'NaN', 'E', 'e-5']
QUOTED = ['"a b"', '"x(y)"', '"p;q"', '"[z]"', '"c:d,e"', '"  "', 'pre"in side"post', '"\t"', '""', '"Homo sapiens\\isolate 3"', '"C:\\data\\x"',
          '"a\\"', '"\\("', '"1 2"', "\"it's\""]
COMMENTS = ['c', '&&NHX:name=A:flag=Red', 'a b', '(,;:)', '"', '[[', 'x"y', ' ', '\n', 'é']

def canon(nodes, v):
    n = nodes[v]
    return (n['name'], n['comment'], n['pe'], tuple(canon(nodes, c) for c in n['children']))

def root_of(nodes):
    for n in nodes:
        if n is not None and n['parent'] is None:
            return n['id']
    return None

def same_len(a, b):
    if a == b:
        return True
    return False

class Check(PropCheck):
    pid = 'C01'
    pure_predicate = True
    tol = None
    rule = ('trees built through add/add_child, parsed, and edited (prune/compress/merge/add_child/ladderize), 1..200 nodes, unary and '
            'multifurcating nodes, every mixture of named/unnamed/quoted names, comments (with metacharacters), and lengths from all f64 '
            'classes (negative, -0, subnormal, 1e300, infinities, random bit patterns) or absent, incl. length+comment on the root and '
            'single nodes; compared: text, re-parsed arena, re-written text; non-trivial: tree has >= 2 nodes or a label; distinct by op-list hash')

    def rand_label_tree(self, rng, n, lens):
        t = gen.rand_shape(rng, n, p_multi=rng.choice([0, 0.3, 0.6]), p_unary=rng.choice([0, 0.15, 0.4]))
        for i, nd in enumerate(t.nodes()):
            r = rng.random()
            if r < 0.55:
                nd.name = rng.choice(NAME_POOL) + (str(i) if rng.random() < 0.7 else '')
            elif r < 0.7:
                nd.name = rng.choice(QUOTED)
            if rng.random() < 0.3:
                nd.comment = rng.choice(COMMENTS)
            if i == 0 and lens != 'root':
                continue
            r = rng.random()
            if r < 0.15:
                continue
            if lens == 'special' or (lens == 'root' and i == 0):
                nd.length = rng.choice(gen.SPECIAL_F64)
            elif lens == 'wildbits':
                x = vf.bits_f64(rng.getrandbits(64))
                nd.length = 1.25 if math.isnan(x) else x
            elif lens == 'exact':
                nd.length = gen.exact_len(rng)
            else:
                # moderate magnitudes: the model prints / parses these as exact decimals
                x = rng.uniform(-10, 10) if rng.random() < 0.5 else rng.random() * 10.0 ** rng.randint(-12, 12)
                nd.length = x
        return t

    def gen_cases(self):
        rng = self.rng
        cases = []
        n_cases = 1500 if self.tier == 'quick' else 15000
        for k in range(n_cases):
            n = rng.choice([1, 1, 2, 3, 4, 5, 8, 13]) if rng.random() < 0.8 else rng.randint(10, 60 if self.tier == 'quick' else 400)
            lens = rng.choice(['special', 'wildbits', 'exact', 'wild', 'root'])
            t = self.rand_label_tree(rng, n, lens)
            via_parser = rng.random() < 0.45 or lens == 'root'
            if via_parser:
                ops = [gen.parse_op(gen.to_newick(t))]
            else:
                t.length = None
                ops = ['new'] + gen.build_ops(t)
            if rng.random() < 0.35:
                ops += edit_prefix(rng, rng.randint(1, 5))
            ops += ['dump', 'to_newick', 'rt_newick']
            cases.append(Case('t%d' % k, ops, {'impl_only': lens in ('special', 'wildbits', 'root'), 'lens': lens}))
        # exhaustive small shapes x label palette
        pal = [(None, None, None), ('A', None, 0.5), (None, 'c', -0.0), ('"q r"', 'x y', math.inf)]
        shapes = []
        for n in (1, 2, 3):
            shapes += gen.all_shapes(n)
        shapes += [gen.T(children=[gen.T()]), gen.T(children=[gen.T(children=[gen.T()])]), gen.T(children=[gen.T(children=[gen.T(), gen.T()])])]
        k = 0
        import itertools
        for sh in shapes:
            nn = len(sh.nodes())
            if nn > 4:
                continue
            for combo in itertools.product(range(len(pal)), repeat=nn):
                t = sh.copy()
                for nd, ci in zip(t.nodes(), combo):
                    nd.name, nd.comment, nd.length = pal[ci]
                cases.append(Case('e%d' % k, [gen.parse_op(gen.to_newick(t)), 'dump', 'to_newick', 'rt_newick']))
                k += 1
        self.stats['exhaustive_small'] = k
        # known-finding class: empty-string labels can only be produced through the API
        for k2 in range(6):
            t = gen.rand_tree(rng, 3, 'exact')
            t.nodes()[k2 % len(t.nodes())].name = ''
            cases.append(Case('kf1_%d' % k2, ['new'] + gen.build_ops(t) + ['dump', 'to_newick', 'rt_newick']))
        return cases

    def case_tol(self, case):
        # parsed decimal text: the model keeps the exact decimal value, the crate rounds it to the nearest f64
        if case.meta.get('lens') == 'exact' and not case.ops[0].startswith('parse'):
            return None
        return 2.0 ** -50

    def nontrivial(self, case, il):
        for o, l in zip(case.ops, il):
            if o == 'dump':
                nodes = dump_of(l)
                if nodes is None:
                    return False
                live = [n for n in nodes if n is not None]
                return len(live) >= 2 or any(n['name'] != '-' or n['pe'] != '-' for n in live)
        return False

    def known_finding(self, case, reasons):
        # KF1: some node carries an empty-string name or comment (only constructible through the API)
        for o in case.ops:
            a = o.split()
            if a[0] == 'add' and (a[1] == 's' or a[2] == 's'):
                return 'KF1'
            if a[0] == 'add_child' and (a[2] == 's' or a[4] == 's'):
                return 'KF1'
        return None

    def predicate(self, case, il):
        bad = []
        nodes = None
        for i, (o, l) in enumerate(zip(case.ops, il)):
            if o == 'dump':
                nodes = dump_of(l)
            elif o == 'rt_newick' and nodes is not None:
                live = [n for n in nodes if n is not None]
                if not live:
                    continue
                if any(vf.decode_num(n['pe']).v == 'nan' for n in live if n['pe'] != '-'):
                    continue      # NaN lengths are outside the quantifier
                if l[0] != 'ok':
                    bad.append((i, 'written tree does not parse back: ' + ' '.join(l[:3])[:200])); break
                text1, text2 = l[1], l[-1]
                re_nodes = dump_of(['ok'] + l[2:-1])
                if re_nodes is None:
                    bad.append((i, 'unreadable re-parsed dump')); break
                r1, r2 = root_of(nodes), root_of(re_nodes)
                if canon(nodes, r1) != canon(re_nodes, r2):
                    bad.append((i, 're-parsed tree differs (shape, child order, names, comments or length bits)')); break
                if text1 != text2:
                    bad.append((i, 'writing the re-parsed tree gives a different text')); break
        return bad
