"""C18 - command-line subcommands agree with the library semantics"""
import os, subprocess, shutil, math, time
from fractions import Fraction
from concurrent.futures import ThreadPoolExecutor
import vf, gen
from vf import Case
from checklib import PropCheck
import checklib

CLI_TARGET = os.environ.get('VERIF_CLI_TARGET') or os.path.join(vf.BUILD, 'cli_target')      # (override: tools/coverage_cli.sh)
CLI_BIN = os.path.join(CLI_TARGET, 'debug', 'phylotree')

def preorder_ids(t):
    """generator tree -> dict id(node) -> arena id (the parser numbers nodes in preorder)"""
    out = {}
    for i, nd in enumerate(t.nodes()):
        out[id(nd)] = i
    return out

class Check(PropCheck):
    pid = 'C18'
    tol = 1e-9
    rule = ('the real binary target/debug/phylotree built from the working tree, run on generated tree files in a scratch directory: '
            'stats (also several files), matrix (-s, -o), distance (-o), compare (several trees), collapse (thresholds, -e, -v, -o; also a short length on the root), '
            'rescale (also several trees into an output directory), documented refusals (remove of an internal name, distance over a missing length), '
            'remove (one or several tips, -o), rescale (-o), resolve (-o); stdout / output files parsed and compared with the model run on the '
            'same trees (the model is the independent computation) and with the contract of each transform; non-trivial: tree has >= 3 leaves')

    def build_cli(self):
        r = vf.sh('cargo build --offline --bin phylotree --manifest-path /repo/Cargo.toml --target-dir %s' % CLI_TARGET, timeout=3000,
                  env={'RUSTFLAGS': os.environ.get('VERIF_CLI_RUSTFLAGS', '')})
        return r.returncode == 0 and os.path.exists(CLI_BIN), r.stdout

    def gen_cases(self):
        # cases are (cid, kind, spec) executed by run_cli; the model ops are built alongside
        rng = self.rng
        self.jobs = []
        n_jobs = 160 if self.tier == 'quick' else 3000
        kinds = ['stats', 'matrix', 'distance', 'compare', 'collapse', 'remove', 'rescale', 'resolve']
        for j in range(n_jobs):
            kind = kinds[j % len(kinds)]
            n = rng.randint(3, 9) if rng.random() < 0.8 else rng.randint(9, 30)
            mode = 'exact' if rng.random() < 0.8 else 'mod'
            names = ['t%d' % i for i in range(n)]
            pm = 0.3 if kind in ('stats', 'resolve', 'collapse', 'compare') else 0.0
            t = gen.rand_tree(rng, n, mode, p_multi=rng.choice([0, pm]) if kind != 'resolve' else 0.6,
                              p_unary=(rng.choice([0.0, 0.2]) if kind == 'stats' else 0.0), internal_names=rng.choice([0, 0.5]), names=names,
                              root_len=(kind == 'collapse' and rng.random() < 0.5))
            if kind == 'stats' and rng.random() < 0.3:
                gen.assign_lengths(t, rng, 'none')
            elif kind == 'stats' and mode == 'exact' and rng.random() < 0.7:
                # negative branch lengths (the farthest-pair search must not assume a metric) and partially missing lengths
                for nd in t.nodes()[1:]:
                    if rng.random() < 0.3 and nd.length is not None:
                        nd.length = -nd.length * rng.choice([1, 1, 4])
                    elif rng.random() < 0.1:
                        nd.length = None
            if kind == 'collapse' and rng.random() < 0.12:
                cand = [nd for nd in t.nodes()[1:] if nd.length is not None]
                if cand:
                    rng.choice(cand).length = float('nan')       # NaN is not shorter than any threshold
            self.jobs.append({'cid': 'j%d' % j, 'kind': kind, 'tree': t, 'mode': mode, 'rng': rng.randint(0, 2 ** 30), 'use_o': rng.random() < 0.4})
        # small trees with negative / zero / missing lengths for the report subcommands: the farthest pair of tips is then not found by
        # greedy sweeps, heights may be negative, sums cancel
        for j in range(60 if self.tier == 'quick' else 1500):
            n = rng.randint(3, 6)
            t = gen.rand_tree(rng, n, 'exact', p_multi=rng.choice([0, 0.4]), p_unary=rng.choice([0, 0.15]), internal_names=rng.choice([0, 0.5]),
                              names=['t%d' % i for i in range(n)])
            kd = rng.choice(['stats', 'stats', 'distance', 'matrix'])
            for nd in t.nodes()[1:]:
                nd.length = rng.choice([-5.0, -4.5, -1.0, 0.0, 0.5, 1.0, 2.0, 5.0, 5.0])
                if kd == 'stats' and rng.random() < 0.06:
                    nd.length = None       # (distance / matrix on a tree with a missing length is refused by the tool with an error exit: not a report)
            self.jobs.append({'cid': 'n%d' % j, 'kind': kd, 'tree': t, 'mode': 'exact', 'rng': rng.randint(0, 2 ** 30), 'use_o': rng.random() < 0.3})
        # documented refusals: the tool must stop with an error (and print no tree / no table row) instead of printing a wrong answer
        for j in range(15 if self.tier == 'quick' else 200):
            n = rng.randint(4, 8)
            t = gen.rand_tree(rng, n, 'exact', p_multi=0.0, internal_names=1.0, names=['t%d' % i for i in range(n)])
            self.jobs.append({'cid': 'x%d' % j, 'kind': 'refuse', 'sub': ['remove_internal', 'distance_missing', 'rescale_multi_no_o', 'compare_missing_first', 'compare_missing_second'][j % 5], 'tree': t,
                              'mode': 'exact', 'rng': rng.randint(0, 2 ** 30), 'use_o': False})
        # several input files at once: `stats f1 f2 ..` (one row per file, a filename column) and `rescale f t1 t2 -o dir` (one output file per input)
        for j in range(16 if self.tier == 'quick' else 300):
            kd = ['stats_multi', 'rescale_multi'][j % 2]
            trees = []
            for q in range(rng.randint(2, 3)):
                n = rng.randint(3, 9)
                trees.append(gen.rand_tree(rng, n, 'exact', p_multi=rng.choice([0, 0.3]) if kd == 'stats_multi' else 0.0, internal_names=rng.choice([0, 0.5]),
                                           names=['t%d' % i for i in range(n)]))
            self.jobs.append({'cid': 'm%d' % j, 'kind': kd, 'tree': trees[0], 'trees': trees, 'mode': 'exact', 'rng': rng.randint(0, 2 ** 30), 'use_o': False})
        return []      # the generic machinery is not used: run() is overridden

    # ------------------------------------------------------------------------------------------------
    def run_job(self, job, workdir):
        import random
        rng = random.Random(job['rng'])
        d = os.path.join(workdir, job['cid'])
        os.makedirs(d, exist_ok=True)
        t = job['tree']
        text = gen.to_newick(t)
        tf = os.path.join(d, 'tree.nwk')
        # legal file layouts: single line, wrapped inside the tree, leading blank lines, CRLF, no final newline
        lay = rng.choice(['plain', 'plain', 'wrapped', 'leading', 'crlf', 'nofinal', 'uniws'])
        ftext = text + '\n'
        if lay == 'wrapped':
            cut = [i for i, ch in enumerate(text) if ch == ',']
            if cut:
                c1 = rng.choice(cut) + 1
                ftext = text[:c1] + '\n' + text[c1:] + '\n'
        elif lay == 'leading':
            ftext = '\n\n' + text + '\n'
        elif lay == 'crlf':
            ftext = text + '\r\n'
        elif lay == 'nofinal':
            ftext = text
        elif lay == 'uniws':
            # Unicode White_Space outside labels (NBSP, NEL, VT, LINE SEPARATOR, IDEOGRAPHIC SPACE): skipped like a blank
            ftext = ''.join(ch + (rng.choice(['\u00a0', '\u0085', '\x0b', '\u2028', '\u3000', ' ']) if ch in ',()' and rng.random() < 0.5 else '') for ch in text) + '\n'
        open(tf, 'w').write(ftext)
        kind = job['kind']
        if kind in ('stats_multi', 'rescale_multi'):
            return self.run_multi(job, d, rng)
        if kind == 'refuse':
            sub = job['sub']
            if sub == 'remove_internal':
                inner = [x for x in t.nodes()[1:] if x.children and x.name]
                args = ['remove', tf, inner[0].name if inner else 'no_such_tip']
            elif sub == 'distance_missing':
                t2 = t.copy(); t2.nodes()[1].length = None
                open(tf, 'w').write(gen.to_newick(t2) + '\n'); text = gen.to_newick(t2)
                lv = t2.leaves()
                args = ['distance', tf, lv[0].name, lv[-1].name]
            elif sub.startswith('compare_missing'):
                # a rooted tree whose two root branches carry ONE split: one of them lacks its length -> the weighted comparison is undefined
                a = gen.rand_tree(rng, 3, 'exact', p_multi=0.0, internal_names=0.0, names=['a0', 'a1', 'a2'])
                b = gen.rand_tree(rng, 3, 'exact', p_multi=0.0, internal_names=0.0, names=['b0', 'b1', 'b2'])
                a.length = 1.5; b.length = 0.5
                (a if sub.endswith('first') else b).length = None
                t2 = gen.T(children=[a, b])
                text = gen.to_newick(t2); open(tf, 'w').write(text + '\n')
                other = t2.copy(); other.children[0].length = 2.0; other.children[1].length = 1.0
                tf2 = os.path.join(d, 'tree2.nwk'); open(tf2, 'w').write(gen.to_newick(other) + '\n')
                args = ['compare', tf, tf2] if rng.random() < 0.5 else ['compare', tf2, tf]
            else:
                tf2 = os.path.join(d, 'tree2.nwk'); open(tf2, 'w').write(text + '\n')
                args = ['rescale', '2.0', tf, tf2]
            try:
                r = subprocess.run([CLI_BIN] + args, stdout=subprocess.PIPE, stderr=subprocess.PIPE, timeout=60, cwd=d)
                rc, so, se = r.returncode, r.stdout.decode('utf-8', 'replace'), r.stderr.decode('utf-8', 'replace')
            except subprocess.TimeoutExpired:
                rc, so, se = -9, '', 'timeout'
            why = None
            data_lines = [x for x in so.strip().split('\n') if x.strip() and not x.startswith('Seq1') and not x.startswith('tree\tpath')]
            if data_lines:
                why = '%s: the request must be refused, but something was printed: %r' % (sub, so[:200])
            elif sub != 'rescale_multi_no_o' and rc == 0:
                why = '%s: the request must be refused with an error exit status, got 0' % sub
            elif rc == -9:
                why = '%s: timeout' % sub
            elif not se.strip():
                why = '%s: refused silently (nothing on stderr)' % sub
            return {'job': job, 'rc': rc, 'out': so, 'err': se, 'args': args, 'mops': [], 'info': {'why': why}, 'text': text, 'dir': d, 'use_o': False}
        args = []; mops = [gen.parse_op(text)]
        outf = os.path.join(d, 'out.txt')
        use_o = job['use_o'] and kind in ('matrix', 'distance', 'collapse', 'remove', 'rescale', 'resolve')
        info = {}
        if kind == 'stats':
            args = ['stats', tf]
            mops += ['height', 'diameter', 'size', 'n_leaves', 'is_rooted', 'is_binary', 'cherries', 'colless', 'sackin']
        elif kind == 'matrix':
            sq = rng.random() < 0.5
            args = ['matrix', tf] + (['-s'] if sq else [])
            mops += ['dm_store', 'm_phylip %d' % (1 if sq else 0)]
        elif kind == 'distance':
            leaves = t.leaves()
            k = rng.randint(2, min(5, len(leaves)))
            tips = rng.sample(leaves, k)
            ids = preorder_ids(t)
            args = ['distance', tf] + [x.name for x in tips]
            info['tips'] = [x.name for x in tips]
            for a in range(k):
                for b in range(a + 1, k):
                    mops.append('dist %d %d' % (ids[id(tips[a])], ids[id(tips[b])]))
        elif kind == 'compare':
            from props.c06 import nni_neighbour
            others = []
            for q in range(rng.randint(1, 3)):
                t2 = nni_neighbour(t, rng)
                poly = [x for x in t.nodes() if len(x.children) >= 3]
                if poly and rng.random() < 0.5:
                    # the compared tree is a strict refinement of the reference (the reference is a contraction of it): every split of
                    # the reference occurs in the other tree, which has extra ones
                    t2 = t.copy()
                    for _ in range(rng.randint(1, 2)):
                        cand = [x for x in t2.nodes() if len(x.children) >= 3]
                        if not cand:
                            break
                        x = rng.choice(cand)
                        ci = rng.randrange(len(x.children) - 1)
                        x.children = x.children[:ci] + [gen.T(children=x.children[ci:ci + 2])] + x.children[ci + 2:]
                elif rng.random() < 0.4:
                    # contract an internal branch of the compared tree: different numbers of bipartitions
                    inner = [x for x in t2.nodes() if any(c.children for c in x.children)]
                    if inner:
                        x = rng.choice(inner)
                        ci = rng.choice([i for i, c in enumerate(x.children) if c.children])
                        x.children = x.children[:ci] + x.children[ci].children + x.children[ci + 1:]
                if rng.random() < 0.3:
                    from props.c05 import redraw_root
                    t2 = redraw_root(t2)          # the same unrooted tree drawn from the other side of a (possibly balanced) root split
                gen.assign_lengths(t2, rng, job['mode'])
                f2 = os.path.join(d, 'cmp%d.nwk' % q); open(f2, 'w').write(gen.to_newick(t2) + '\n')
                others.append((f2, t2))
            args = ['compare', tf] + [f for f, _ in others]
            mops = ['sel 0', gen.parse_op(text), 'partitions']
            for q, (f2, t2) in enumerate(others):
                mops += ['sel %d' % (q + 1), gen.parse_op(gen.to_newick(t2)), 'partitions', 'sel 0', 'cmp_topo %d' % (q + 1)]
            info['others'] = [f for f, _ in others]
        elif kind == 'collapse':
            lens = [x.length for x in t.nodes() if x.length is not None and x.length == x.length]
            # boundary values: a threshold exactly equal to an existing branch length (strictly-shorter test)
            # (exact dyadic trees only: for inexact decimals the model keeps the decimal value and the crate its f64 rounding)
            import math
            thr = rng.choice([0.0, 0.3, 1.0, 2.5, 100.0])
            r = rng.random()
            if lens and job['mode'] == 'exact' and r < 0.75:
                pos = sorted(x for x in lens if x > 0)
                l = rng.choice(lens) if (not pos or rng.random() < 0.5) else pos[0]      # often the shortest branch (one ulp of a length below 2 is < 2.2e-16)
                if r < 0.25:
                    thr = l                                   # equal: strictly-shorter test
                elif r < 0.6:
                    thr = math.nextafter(l, math.inf)         # one ulp above: must collapse ("shorter" must not be blurred by an absolute epsilon)
                else:
                    thr = math.nextafter(l, -math.inf) if l > 0 else l
            ex = rng.random() < 0.5
            verbose = rng.random() < 0.3
            args = ['collapse', tf, repr(thr)] + (['-e'] if ex else []) + (['-v'] if verbose else [])
            info['verbose'] = verbose
            info['thr'] = thr; info['ex'] = ex
            mops += ['cli_collapse %s %d' % (vf.enc_len(thr), 1 if ex else 0), 'to_newick']
        elif kind == 'remove':
            leaves = t.leaves()
            k = rng.randint(1, max(1, len(leaves) - 2))
            tips = rng.sample(leaves, k)
            ids = preorder_ids(t)
            args = ['remove', tf] + [x.name for x in tips]
            mops += ['cli_remove ' + ' '.join(vf.enc_str(x.name) for x in tips), 'to_newick']
            info['tips'] = [x.name for x in tips]
        elif kind == 'rescale':
            f = rng.choice([2.0, 0.5, 0.25, 4.0]) if job['mode'] == 'exact' else rng.choice([2.0, 10.0, 3.3, 0.1])
            args = ['rescale', repr(f), tf]
            mops += ['rescale ' + vf.enc_len(f), 'to_newick']
            info['f'] = f
        elif kind == 'resolve':
            args = ['resolve', tf]
            mops = []
        if use_o:
            args += ['-o', outf]
            if rng.random() < 0.5 and kind in ('collapse', 'remove', 'rescale', 'resolve'):
                # the output path already exists and holds something longer: it must be REPLACED
                open(outf, 'w').write('((old_a:1,old_b:2):3,(old_c:4,old_d:5):6,' + ','.join('old_%d:1' % i for i in range(60)) + ');\n')
        try:
            r = subprocess.run([CLI_BIN] + args, stdout=subprocess.PIPE, stderr=subprocess.PIPE, timeout=60, cwd=d)
            rc, so, se = r.returncode, r.stdout.decode('utf-8', 'replace'), r.stderr.decode('utf-8', 'replace')
        except subprocess.TimeoutExpired:
            rc, so, se = -9, '', 'timeout'
        out = so
        if use_o:
            out = open(outf).read() if os.path.exists(outf) else None
            info['stdout_when_o'] = so
        return {'job': job, 'rc': rc, 'out': out, 'err': se, 'args': args, 'mops': mops, 'info': info, 'text': text, 'dir': d, 'use_o': use_o}

    def run_multi(self, job, d, rng):
        """one CLI call on several files; returned as one result per file, judged like the single-file subcommand"""
        kind = job['kind']; trees = job['trees']
        files = []
        for q, t in enumerate(trees):
            f = os.path.join(d, 'in%d.nwk' % q); open(f, 'w').write(gen.to_newick(t) + '\n'); files.append(f)
        outdir = os.path.join(d, 'outdir')
        if kind == 'stats_multi':
            args = ['stats'] + files
        else:
            fac = rng.choice([2.0, 0.5, 0.25, 4.0])
            args = ['rescale', repr(fac)] + files + ['-o', outdir]
        try:
            r = subprocess.run([CLI_BIN] + args, stdout=subprocess.PIPE, stderr=subprocess.PIPE, timeout=60, cwd=d)
            rc, so, se = r.returncode, r.stdout.decode('utf-8', 'replace'), r.stderr.decode('utf-8', 'replace')
        except subprocess.TimeoutExpired:
            rc, so, se = -9, '', 'timeout'
        res = []
        lines = so.strip('\n').split('\n')
        for q, t in enumerate(trees):
            text = gen.to_newick(t)
            sub = dict(job); sub['cid'] = '%s_%d' % (job['cid'], q); sub['tree'] = t
            info = {}
            if kind == 'stats_multi':
                sub['kind'] = 'stats'
                out = None
                hdr = 'filename\theight\tdiameter\tnodes\ttips\trooted\tbinary\tncherries\tcolless\tsackin'
                if rc == 0 and len(lines) == 1 + len(trees) and lines[0] == hdr:
                    cols = lines[1 + q].split('\t')
                    if cols and cols[0] == '"%s"' % files[q]:
                        out = hdr.split('\t', 1)[1] + '\n' + '\t'.join(cols[1:]) + '\n'
                mops = [gen.parse_op(text), 'height', 'diameter', 'size', 'n_leaves', 'is_rooted', 'is_binary', 'cherries', 'colless', 'sackin']
                use_o = False
                if out is None and rc == 0:
                    rc2 = 'layout'; se2 = 'stats on several files: expected a filename header and one row per file in argument order, got %r' % so[:300]
                    res.append({'job': sub, 'rc': rc2, 'out': '', 'err': se2, 'args': args, 'mops': mops, 'info': info, 'text': text, 'dir': d, 'use_o': use_o}); continue
            else:
                sub['kind'] = 'rescale'
                of = os.path.join(outdir, os.path.basename(files[q]))
                out = open(of).read() if os.path.exists(of) else None
                info = {'f': fac, 'stdout_when_o': so}
                mops = [gen.parse_op(text), 'rescale ' + vf.enc_len(fac), 'to_newick']
                use_o = True
            res.append({'job': sub, 'rc': rc, 'out': out, 'err': se, 'args': args, 'mops': mops, 'info': info, 'text': text, 'dir': d, 'use_o': use_o})
        return res

    def judge(self, res, model_lines):
        """returns a reason string when the CLI output violates the property, else None"""
        job = res['job']; kind = job['kind']; info = res['info']; out = res['out']; t = job['tree']
        tol = None if job['mode'] == 'exact' else 1e-9
        if res['rc'] != 0:
            return 'exit status %s, stderr: %s' % (res['rc'], res['err'][-200:])
        if out is None:
            return 'output file was not written'
        if res['use_o'] and info.get('stdout_when_o', '').strip() != '' and kind != 'distance':
            return 'with -o the tree was also printed to stdout'
        def num_ok(txt, mtok):
            try:
                x = float(txt)
            except ValueError:
                return False
            return vf.num_eq(vf.num_of_float(x), vf.decode_num(mtok), tol, Fraction(1))
        if kind == 'stats':
            lines = out.strip().split('\n')
            if len(lines) != 2 or lines[0] != 'height\tdiameter\tnodes\ttips\trooted\tbinary\tncherries\tcolless\tsackin':
                return 'unexpected stats layout'
            cols = lines[1].split('\t')
            if len(cols) != 9:
                return 'stats: %d columns' % len(cols)
            for ci, (c, ml) in enumerate(zip(cols, model_lines[1:])):
                if ml[0] != 'ok':
                    if c != '-':
                        return 'stats column %d is %r, the library refuses this statistic' % (ci, c)
                    continue
                if ci in (0, 1):
                    if not num_ok(c, ml[1]):
                        return 'stats column %d is %r, model %s' % (ci, c, ml[1])
                elif ci in (4, 5):
                    if c != ('true' if ml[1] == '1' else 'false'):
                        return 'stats column %d is %r, model %s' % (ci, c, ml[1])
                elif c != ml[1]:
                    return 'stats column %d is %r, model %s' % (ci, c, ml[1])
            return None
        if kind == 'matrix':
            ml = model_lines[2]
            if ml[0] != 'ok':
                return 'model refused matrix'
            got = out if res['use_o'] else (out[:-1] if out.endswith('\n') else out)
            if not vf.match_rich(got, ml[1], tol):
                return 'matrix output differs from the library distance matrix in %s form' % ('square' if '-s' in res['args'] else 'triangular')
            return None
        if kind == 'distance':
            lines = out.strip().split('\n')
            if lines[0] != 'Seq1\tSeq2\tDistance':
                return 'distance header'
            tips = info['tips']; k = 0
            for a in range(len(tips)):
                for b in range(a + 1, len(tips)):
                    cols = lines[1 + k].split('\t') if 1 + k < len(lines) else []
                    ml = model_lines[1 + k]; k += 1
                    if len(cols) != 3 or cols[0] != tips[a] or cols[1] != tips[b] or ml[0] != 'ok' or not num_ok(cols[2], ml[1]):
                        return 'distance line %d: %r, model %s' % (k, cols, ml[:3])
            if len(lines) != 1 + k:
                return 'distance: %d lines for %d pairs' % (len(lines) - 1, k)
            return None
        if kind == 'compare':
            lines = out.strip().split('\n')
            if lines[0] != 'tree\tpath\treference\tcommon\tcompared\trf\tnorm_rf\trf_w\tbranch_score':
                return 'compare header'
            ref = model_lines[2]
            def pset(l):
                return set(tuple(it) for kd, its in vf.split_sets(l[1:]) if kd == 'set' for it in its)
            refp = pset(ref)
            for q, f2 in enumerate(info['others']):
                base = 3 + 5 * q
                op = pset(model_lines[base + 2]); ct = model_lines[base + 4]
                cols = lines[1 + q].split('\t') if 1 + q < len(lines) else []
                if len(cols) != 9 or ct[0] != 'ok':
                    return 'compare row %d malformed' % q
                common = len(refp & op)
                exp = [str(q), f2, str(len(refp) - common), str(common), str(len(op) - common)]
                if cols[:5] != exp:
                    return 'compare row %d: %r expected %r' % (q, cols[:5], exp)
                rf, tot = int(ct[1]), int(ct[2])
                if float(cols[5]) != float(rf) or abs(float(cols[6]) - (rf / tot if tot else math.nan)) > 1e-12 and tot:
                    return 'compare row %d: rf %s / %s, model %d / %d' % (q, cols[5], cols[6], rf, tot)
                if not num_ok(cols[7], ct[3]):
                    return 'compare row %d: weighted rf %s, model %s' % (q, cols[7], ct[3])
                if abs(float(cols[8]) - math.sqrt(vf.q2f(ct[4]))) > 1e-9 * max(1.0, float(cols[8])):
                    return 'compare row %d: branch score %s' % (q, cols[8])
            return None
        # transforms: parse the printed tree through the model and check the contract
        return None

    def run(self, replay=None):
        t0 = time.time()
        pid = self.pid
        import json
        ev = {'property_id': pid, 'tier': self.tier, 'seed': self.seed, 'level': 'proof', 'coverage': {}, 'assumptions': [], 'wall_s': 0.0, 'violations': 0}
        replay_dir = os.path.join(vf.VERIF, 'build', 'replays', pid)
        os.makedirs(replay_dir, exist_ok=True)
        viol = []
        po = checklib.proof_obligations(pid)
        if not po['ok']:
            rp = os.path.join(replay_dir, 'proof_obligation.txt')
            open(rp, 'w').write('# property %s: proof obligation no longer checks\n%s\n' % (pid, po['failure']))
            viol.append('VIOLATION property=%s replay=%s no-failing-input-found' % (pid, rp))
        ok, log = self.build_cli()
        if not ok:
            rp = os.path.join(replay_dir, 'cli_build.txt')
            open(rp, 'w').write('# the CLI binary does not build\n' + log[-3000:])
            viol.append('VIOLATION property=%s replay=%s no-failing-input-found' % (pid, rp))
            jobs = []; results = []
        else:
            self.gen_cases()
            shutil.rmtree(self.workdir, ignore_errors=True)
            os.makedirs(self.workdir, exist_ok=True)
            with ThreadPoolExecutor(max_workers=vf.NCPU) as ex:
                raw = list(ex.map(lambda j: self.run_job(j, self.workdir), self.jobs))
            results = []
            for r in raw:
                results.extend(r if isinstance(r, list) else [r])
        # second stage for transforms: feed the printed tree back through the model / harness
        cases = []
        for res in results:
            kind = res['job']['kind']
            mops = list(res['mops'])
            out = res['out'] or ''
            if kind in ('collapse', 'resolve', 'remove', 'rescale') and res['rc'] == 0 and res['out'] is not None:
                printed = out.strip()
                mops = ['sel 0'] + (mops if mops else [gen.parse_op(res['text'])]) + ['dump', 'dm', 'sel 1', gen.parse_op(printed), 'dump', 'dm', 'is_binary', 'get_leaf_names']
            res['mops2'] = mops
            cases.append(Case(res['job']['cid'], mops if mops else ['size']))
        impl, model = vf.run_cases(cases, os.path.join(self.workdir, 'model'), timeout=600) if cases else ({}, {})
        nontriv = 0
        samples = []
        for res in results:
            cid = res['job']['cid']
            ml = model.get(cid, []); il = impl.get(cid, [])
            kind = res['job']['kind']
            if len(res['job']['tree'].leaves()) >= 3:
                nontriv += 1
            reason = None
            # the library (harness) and the model must agree on the auxiliary computation
            c = [x for x in cases if x.cid == cid][0]
            d = vf.compare_case(c, il, ml, None if res['job']['mode'] == 'exact' else 1e-9)
            if kind == 'refuse':
                reason = res['info']['why']
            elif kind in ('stats', 'matrix', 'distance', 'compare'):
                reason = self.judge(res, ml)
            else:
                reason = self.judge_transform(res, ml, il)
            if reason is None and d:
                reason = 'library and model disagree on the reference computation: %s' % (d[:2],)
            if reason:
                rp = os.path.join(replay_dir, 'cli_%s.txt' % cid)
                with open(rp, 'w') as f:
                    f.write('# property %s: %s\n# run: cd %s && %s %s\n# tree file:\n%s\n# output:\n%s\n# stderr:\n%s\n' % (
                        pid, reason, res['dir'], CLI_BIN, ' '.join(res['args']), res['text'], (res['out'] or '')[:3000], res['err'][:1000]))
                if len(viol) < 6:
                    viol.append('VIOLATION property=%s replay=%s' % (pid, rp))
            if len(samples) < 4:
                samples.append({'args': res['args'][:1] + [os.path.basename(a) if a.startswith('/') else a for a in res['args'][1:]], 'tree': res['text'][:200], 'output': (res['out'] or '')[:200]})
        for l in viol:
            print(l)
        kinds = {}
        for res in results:
            kinds[res['job']['kind']] = kinds.get(res['job']['kind'], 0) + 1
        ev['coverage'] = {
            'obligations': max(1, po['obligations']), 'discharged': po['discharged'],
            'checker_cmd': 'make -C /verif/coq (full .vo build) && coqc props/C18.v (Print Assumptions)',
            'trusted_base': checklib.TRUSTED_BASE + ['the process / OS layer (exit status, file creation, clap parsing) is observed, not modelled'],
            'theorems': po['theorems'], 'evaluations': len(results), 'distinct_nontrivial': nontriv, 'rule': self.rule, 'samples': samples,
            'subcommand_distribution': kinds, 'with_output_file': sum(1 for r in results if r['use_o']),
        }
        ev['assumptions'] = ['model faithful to the library as far as the other properties\' correspondence checks exercise it']
        ev['violations'] = len(viol)
        ev['wall_s'] = round(time.time() - t0, 2)
        self.write_evidence(ev)
        return 1 if viol else 0

    def judge_transform(self, res, ml, il):
        job = res['job']; kind = job['kind']; info = res['info']
        if res['rc'] != 0:
            return 'exit status %s, stderr: %s' % (res['rc'], res['err'][-200:])
        if res['out'] is None:
            return 'output file was not written'
        if res['use_o'] and info.get('stdout_when_o', '').strip() != '':
            return 'with -o the tree was also printed to stdout'
        if res['out'].count(';') != 1 or not res['out'].strip().endswith(';') or '\n' in res['out'].strip():
            return 'the output is not exactly one tree on one line: %r' % (res['out'][:80] + ' ... ' + res['out'][-80:],)
        ops = res['mops2']
        # locate the pieces in the harness (library) observations: ... dump dm | sel 1 parse dump dm is_binary names
        try:
            i1 = ops.index('sel 1')
        except ValueError:
            return 'internal: no second stage'
        if il[i1 + 1][0] != 'ok':
            return 'printed tree does not parse: %r' % (res['out'][:120],)
        before = vf.parse_dump(il[i1 - 2][1:]) if il[i1 - 2][0] == 'ok' else None
        after = vf.parse_dump(il[i1 + 2][1:]) if il[i1 + 2][0] == 'ok' else None
        dm_b, dm_a = il[i1 - 1], il[i1 + 3]
        from props.c01 import canon, root_of
        tol = None if job['mode'] == 'exact' else 1e-9
        def dm_map(l):
            from props.c08 import parse_dm, tril
            taxa, cells = parse_dm(l)
            return {frozenset([taxa[x], taxa[y]]): vf.decode_num(cells[tril(x, y)]) for x in range(len(taxa)) for y in range(x)}
        if kind in ('remove', 'rescale', 'collapse'):
            # the result of the same composition through the library (and the Cli.v model, compared separately) must equal the printed tree
            if before is None or after is None or canon(before, root_of(before)) != canon(after, root_of(after)):
                if tol is None:
                    return '%s: printed tree differs from the same composition applied through the library' % kind
            if kind == 'remove':
                names = [vf.dec_str(n['name']) for n in after if n is not None and not n['children'] and n['name'] != '-']
                if any(x in names for x in info['tips']):
                    return 'remove: a named tip is still present'
                orig = set(x.name for x in job['tree'].leaves())
                if (orig - set(info['tips'])) - set(names):
                    return 'remove: a tip that was not named disappeared'
                inner = set(x.name for x in job['tree'].nodes() if x.children and x.name)
                if set(names) - orig - inner:
                    return 'remove: an unknown tip appeared'
                if dm_b[0] == 'ok' and dm_a[0] == 'ok':
                    A, B = dm_map(dm_b), dm_map(dm_a)
                    keep = orig - set(info['tips'])
                    for k2 in B:
                        if k2 <= keep and k2 in A and not vf.num_eq(A[k2], B[k2], 1e-9, Fraction(1)):
                            return 'remove: the distance between remaining tips %s changed' % sorted(k2)
            if kind != 'collapse':
                return None
        if kind == 'resolve':
            if il[i1 + 4][0] != 'ok' or il[i1 + 4][1] != '1':
                return 'resolve: the printed tree is not binary'
            if dm_b[0] == 'ok' and dm_a[0] == 'ok':
                A, B = dm_map(dm_b), dm_map(dm_a)
                if set(A) != set(B) or any(not vf.num_eq(A[k], B[k], 1e-9, Fraction(1)) for k in A):
                    return 'resolve: tip-to-tip distances changed'
            return None
        if kind == 'collapse':
            thr = info['thr']; ex = info['ex']
            t = job['tree']
            if info.get('verbose'):
                # -v: "Print the number of collapsed branches at the end" (on stderr), nothing else changes
                want_n = sum(1 for i, nd in enumerate(t.nodes()) if i != 0 and nd.length is not None and nd.length < thr and not (ex and not nd.children))
                last = [x for x in res['err'].strip().split('\n') if x.strip()]
                if not last or last[-1].strip() != str(want_n):
                    return 'collapse -v: reported %r collapsed branches, %d branches are shorter than the threshold' % (last[-1] if last else None, want_n)
            exp = t.copy()
            for i, nd in enumerate(exp.nodes()):
                if nd.length is not None and i != 0 and nd.length < thr and not (ex and not nd.children):
                    nd.length = 0.0
            got = after
            want_text = gen.to_newick(exp)
            # compare through the library parser: parse the expected text in Python terms
            def nn(x):
                return 'nan' if (x is not None and x != x) else x
            def canon_t(nd):
                return (nd.name, nn(nd.length), tuple(canon_t(c) for c in nd.children))
            def canon_d(nodes, v):
                n = nodes[v]
                return (None if n['name'] == '-' else vf.dec_str(n['name']), None if n['pe'] == '-' else nn(vf.bits_f64(int(n['pe'][1:], 16))),
                        tuple(canon_d(nodes, c) for c in n['children']))
            if got is None or canon_d(got, root_of(got)) != canon_t(exp):
                return 'collapse: only branches shorter than the threshold (tips excluded with -e) may become zero; got %r expected %r' % (res['out'][:150], want_text[:150])
            return None
        return None
