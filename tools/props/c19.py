"""C19 - radial layout is a faithful drawing of the tree"""
import math
import vf, gen
from vf import Case
from checklib import PropCheck
from props.common import dump_of
from props.c10 import edit_prefix

def groups(toks, start):
    i = start + 2
    out = []; cur = []
    while toks[i] != ']':
        if toks[i] == ';':
            out.append(cur); cur = []
        else:
            cur.append(toks[i])
        i += 1
    return out, i + 1

class Check(PropCheck):
    pid = 'C19'
    pure_predicate = True
    tol = 1e-9
    rule = ('trees of all shapes (polytomies, unary nodes, two/three-child roots, 1..60 / 1..400 leaves, also after edits leaving removed '
            'slots) with finite non-negative lengths (exact dyadic and inexact), zero-length branches included; layout and rescaled '
            'layout; coordinates compared with the model angles (exact rational turns) through cos/sin at 1e-9 of the drawing size; '
            'non-trivial: >= 3 nodes; distinct by op-list hash')

    def gen_cases(self):
        rng = self.rng
        cases = []
        nr = 300 if self.tier == 'quick' else 6000
        for j in range(nr):
            n = rng.randint(1, 12) if rng.random() < 0.7 else rng.randint(12, 60 if self.tier == 'quick' else 400)
            mode = rng.choice(['exact', 'mod'])
            t = gen.rand_tree(rng, n, mode, p_multi=rng.choice([0, 0.3, 0.6]), p_unary=rng.choice([0, 0.15]), internal_names=0.3)
            ops = [gen.parse_op(gen.to_newick(t))] if rng.random() < 0.7 else ['new'] + gen.build_ops(t)
            r2 = rng.random()
            if r2 < 0.2:
                ops += ['pick nonroot %d' % rng.randint(0, 10 ** 6), 'prune $0']
            elif r2 < 0.4:
                ops += ['pick sibpair %d' % rng.randint(0, 10 ** 6), 'merge $0 $1 %s %s %s -' % (vf.enc_len(0.5), vf.enc_len(1.5), vf.enc_len(0.25))]
            elif r2 < 0.55:
                ops += ['size', 'resolve %d' % rng.randint(0, 10 ** 6), 'dump']
            elif r2 < 0.62:
                ops += ['pick nonroot %d' % rng.randint(0, 10 ** 6), 'set_pedge $0 ' + vf.enc_len(gen.exact_len(rng))]
            if rng.random() < 0.12:
                # the whole tree on a tiny / huge scale (a drawing in another unit): nothing may depend on an absolute epsilon
                ops += ['rescale ' + vf.enc_len(rng.choice([2.0 ** -70, 2.0 ** -55, 2.0 ** -200, 2.0 ** 80]))]
            f = rng.choice([2.0, 0.5, 10.0, 0.001, -1.0, 3.7]) if rng.random() < 0.85 else rng.choice([0.0, -0.0, 1e-310, 5e-324, 1.0, 2.0 ** -1040])
            ops += ['dump', 'layout', 'layout ' + vf.enc_len(f)]
            if rng.random() < 0.1:
                # a missing length must be refused
                ops = [gen.parse_op('((A:1,B):1,C:2);'), 'dump', 'layout']
            cases.append(Case('c%d' % j, ops, {'factor': f}))
        return cases

    def nontrivial(self, case, il):
        for o, l in zip(case.ops, il):
            if o == 'dump':
                nodes = dump_of(l)
                return nodes is not None and sum(1 for x in nodes if x is not None) >= 3
        return False

    def predicate(self, case, il):
        bad = []
        nodes = None
        first = None
        for i, (o, l) in enumerate(zip(case.ops, il)):
            a = o.split()
            if o == 'dump':
                nodes = dump_of(l); continue
            if a[0] != 'layout' or nodes is None:
                continue
            if l[0] in ('panic', 'crash', 'hang'):
                return [(i, 'layout ' + l[0])]
            live = [x for x in nodes if x is not None]
            roots = [x for x in live if x['parent'] is None]
            if len(roots) != 1:
                continue
            root = roots[0]['id']
            nonroot = [x for x in live if x['parent'] is not None]
            if any(x['pe'] == '-' for x in nonroot):
                if l[0] != 'err':
                    bad.append((i, 'layout of a tree with a missing length was not refused'))
                continue
            if l[0] != 'ok':
                bad.append((i, 'layout refused: ' + ' '.join(l[:2]))); break
            br, nxt = groups(l[1:], 0)
            nd, _ = groups(l[1:], nxt)
            factor = 1.0 if len(a) == 1 else case.meta['factor']
            # preorder of non-root nodes
            order = []
            def pre(v):
                if v != root:
                    order.append(v)
                for c in nodes[v]['children']:
                    pre(c)
            try:
                pre(root)
            except RecursionError:
                continue
            if len(br) != len(order) or len(nd) != len(order):
                bad.append((i, '%d segments / %d points for %d non-root nodes' % (len(br), len(nd), len(order)))); break
            pos = {root: (0.0, 0.0)}
            nl = {}
            def cnt(v):
                ch = nodes[v]['children']
                nl[v] = 1 if not ch else sum(cnt(c) for c in ch)
                return nl[v]
            cnt(root)
            tt = {root: 0.0}; ww = {root: 2 * math.pi}
            def wedges(v):
                acc = tt[v]
                for c in nodes[v]['children']:
                    ww[c] = nl[c] * 2 * math.pi / nl[root]; tt[c] = acc; acc += ww[c]
                    wedges(c)
            wedges(root)
            size = max([abs(vf.bits_f64(int(x['pe'][1:], 16))) for x in nonroot] + [1e-300]) * max(1, len(order)) * max(abs(factor), 1e-300)
            for v, b, p in zip(order, br, nd):
                xs, ys, xe, ye = [vf.fl(t) for t in b]
                x, y = vf.fl(p[0]), vf.fl(p[1])
                u = nodes[v]['parent']
                if u not in pos:
                    bad.append((i, 'segment of %d listed before its parent' % v)); break
                if (xs, ys) != pos[u]:
                    bad.append((i, 'segment of %d does not start at the drawn position of its parent' % v)); break
                if (x, y) != (xe, ye):
                    bad.append((i, 'segment of %d does not end at the node position' % v)); break
                pos[v] = (xe, ye)
                d = vf.bits_f64(int(nodes[v]['pe'][1:], 16))
                ln = math.hypot(xe - xs, ye - ys)
                if abs(ln - abs(d * factor)) > 1e-9 * size:
                    bad.append((i, 'segment of %d has length %r, branch length %r' % (v, ln, d * factor))); break
                if abs(d * factor) > 1e-6 * size:
                    ang = math.atan2((ye - ys) / factor, (xe - xs) / factor) if factor > 0 else math.atan2(-(ye - ys), -(xe - xs))
                    want = tt[v] + ww[v] / 2
                    diff = (ang - want + math.pi) % (2 * math.pi) - math.pi
                    if abs(diff) > 1e-6:
                        bad.append((i, 'segment of %d points at %r, the middle of its wedge is %r' % (v, ang, want))); break
                if p[2] != nodes[v]['name']:
                    bad.append((i, 'label of %d' % v)); break
            if bad:
                break
            if len(a) == 1:
                first = (br, nd)
            elif first is not None:
                for b0, b1 in zip(first[0], br):
                    for t0, t1 in zip(b0, b1):
                        if vf.fl(t0) * factor != vf.fl(t1):
                            bad.append((i, 'rescaling does not multiply every coordinate by the factor')); break
                    if bad:
                        break
        return bad
