"""C04 - query answers depend only on the tree, not on edit or query history"""
import vf, gen
from vf import Case
from checklib import PropCheck
from props.common import dump_of

GLOBAL_Q = ['n_leaves', 'get_leaf_names', 'is_binary', 'is_rooted', 'unique_tips', 'height', 'diameter', 'length', 'cherries', 'colless', 'sackin',
            'colless_yule', 'colless_pda', 'sackin_yule', 'sackin_pda', 'partitions', 'dm', 'dmr', 'search tip', 'search unnamed', 'search all', 'to_newick', 'to_nexus', 'get_leaves']
ROOT_Q = ['preorder', 'postorder', 'levelorder', 'inorder', 'subtree', 'descendants', 'subtree_leaves']

def keys_of(nodes):
    """id -> canonical key independent of arena numbering: (name, sorted leaf names below, depth)"""
    def below(v):
        n = nodes[v]
        if not n['children']:
            return (n['name'],)
        out = ()
        for c in n['children']:
            out += below(c)
        return out
    def depth(v):
        d = 0
        while nodes[v]['parent'] is not None:
            v = nodes[v]['parent']; d += 1
        return d
    return {n['id']: (n['name'], tuple(sorted(below(n['id']))), depth(n['id'])) for n in nodes if n is not None}

class Check(PropCheck):
    pid = 'C04'
    pure_predicate = True
    tol = None
    rule = ('random interleavings of the editing operations with read-only queries (cache-filling ones first, edits, reset_bipartition_cache, '
            'then every query; each query issued twice in shuffled order), then the tree is re-created by from_newick(to_newick) and every '
            'query asked again; answers compared by node name / canonical position (leaf-name set + depth), listings in arena or hash order '
            'as multisets; trees >= 2 nodes with uniquely named leaves, exact dyadic lengths; non-trivial: >= 1 successful edit; distinct by op list')

    def gen_cases(self):
        rng = self.rng
        cases = []
        nr = 500 if self.tier == 'quick' else 12000
        for j in range(nr):
            n = rng.randint(2, 10) if rng.random() < 0.75 else rng.randint(10, 30 if self.tier == 'quick' else 80)
            mode = rng.choice(['exact', 'exact', 'none'])
            t = gen.rand_tree(rng, n, mode, p_multi=rng.choice([0, 0.3]), p_unary=rng.choice([0, 0.15]), internal_names=rng.choice([0, 0.5, 1.0]), collide=(0.5 if rng.random() < 0.1 else 0.0))
            ops = [gen.parse_op(gen.to_newick(t))] if rng.random() < 0.7 else ['new'] + gen.build_ops(t)
            # cache-filling queries first
            ops += rng.sample(['partitions', 'dm', 'n_leaves', 'sackin', 'dmr', 'height'], 3)
            for s in range(rng.randint(1, 6)):
                r = rng.random(); big = rng.randint(0, 10 ** 6)
                if rng.random() < 0.12:
                    # an operation that must be refused (removed or unknown id) and must leave nothing behind
                    sel = 'removed'          # no removed slot yet: the selector yields an id far out of range
                    ops += ['pick %s %d' % (sel, big), rng.choice(['add_child $0 %s %s -' % (vf.enc_str('ghost%d_%d' % (j, s)), vf.enc_len(0.5)), 'prune $0',
                                                                  'merge $0 $0 - - - -'])]
                if rng.random() < 0.06:
                    # merging a live node with itself is refused and must change nothing
                    ops += ['pick nonroot %d' % big, 'merge $0 $0 - - - -']
                if r < 0.3:
                    ops += ['pick nonroot %d' % big, 'prune $0']
                elif r < 0.45:
                    ops += ['compress']
                elif r < 0.55:
                    ops += ['size', 'resolve %d' % big, 'dump']
                elif r < 0.65:
                    ops += ['ladderize']
                elif r < 0.75:
                    ops += ['rescale ' + vf.enc_len(rng.choice([0.5, 2.0, 4.0]))]
                elif r < 0.9:
                    ops += ['pick sibpair %d' % big, 'merge $0 $1 %s %s %s -' % (vf.enc_len(0.5), vf.enc_len(1.5), vf.enc_len(0.25))]
                else:
                    ops += ['pick live %d' % big, 'add_child $0 %s %s -' % (vf.enc_str('new%d_%d' % (j, s)), vf.enc_len(0.75))]
                if rng.random() < 0.4:
                    ops += [rng.choice(['partitions', 'dm', 'n_leaves', 'to_newick', 'sackin'])]
            ops += ['compress', 'reset_depths'] if rng.random() < 0.3 else []
            ops += ['reset_cache', 'dump', 'get_root']
            q = list(GLOBAL_Q) + list(GLOBAL_Q)
            rng.shuffle(q)
            ops += ['MARK_A'] + q + ['reparse 1', 'sel 1', 'dump', 'get_root', 'MARK_B'] + GLOBAL_Q
            cases.append(Case('h%d' % j, ops, {}))
        # expand: root-relative queries need the root id: use pick
        for c in cases:
            new = []
            for o in c.ops:
                if o in ('MARK_A', 'MARK_B'):
                    new.append('pick root 0')
                    for rq in ROOT_Q:
                        new.append('%s $0' % rq)
                else:
                    new.append(o)
            c.ops = new
        return cases

    def nontrivial(self, case, il):
        for o, l in zip(case.ops, il):
            if o.split()[0] in ('prune', 'compress', 'merge', 'resolve', 'add_child') and l and l[0] == 'ok':
                return True
        return False

    def predicate(self, case, il):
        bad = []
        # locate the two phases
        idx = [i for i, o in enumerate(case.ops) if o == 'pick root 0']
        if len(idx) != 2:
            return bad
        a0, b0 = idx
        for i, (o, l) in enumerate(zip(case.ops, il)):
            if l and l[0] in ('panic', 'crash', 'hang'):
                return [(i, o[:40] + ' ' + l[0])]
        dumps = [(i, dump_of(l)) for i, (o, l) in enumerate(zip(case.ops, il)) if o == 'dump']
        dA = [d for i, d in dumps if i < a0]
        dB = [d for i, d in dumps if a0 < i < b0]
        if not dA or not dB or dA[-1] is None or dB[-1] is None:
            return bad
        nodesA, nodesB = dA[-1], dB[-1]
        if not [n for n in nodesA if n is not None]:
            return bad
        kA, kB = keys_of(nodesA), keys_of(nodesB)
        def canon(op, l, keys):
            if l[0] != 'ok':
                return (l[0],)
            a = op.split()
            toks = l[1:]
            if a[0] in ('preorder', 'postorder', 'levelorder', 'inorder', 'subtree', 'descendants', 'subtree_leaves'):
                return tuple(keys.get(int(x)) for x in toks[1:-1])
            if a[0] in ('get_leaves', 'search'):
                return tuple(sorted(str(keys.get(int(x))) for x in toks[1:-1]))
            if a[0] == 'get_leaf_names':
                return tuple(sorted(toks[1:-1]))
            if a[0] == 'to_nexus':
                # the label list follows the arena order: compare it as a multiset
                txt = vf.dec_str(toks[0])
                lines = txt.split('\n')
                lines = [' '.join(sorted(x.replace(';', ' ').split())) if 'TAXLABELS' in x else x for x in lines]
                return tuple(lines)
            return tuple(toks)
        # phase A: every query answered twice identically
        ansA = {}
        for i in range(a0, b0):
            o, l = case.ops[i], il[i]
            if o in GLOBAL_Q:
                c = canon(o, l, kA)
                if o in ansA and ansA[o][1] != c:
                    return [(i, 'the answer of %s changed between two read-only calls' % o)]
                ansA[o] = (i, c)
            elif o.split()[0] in ROOT_Q:
                ansA[o] = (i, canon(o, l, kA))
        for i in range(b0, len(case.ops)):
            o, l = case.ops[i], il[i]
            if o in ansA:
                c = canon(o, l, kB)
                if c != ansA[o][1]:
                    bad.append((ansA[o][0], '%s answers differently on the edited tree and on a tree freshly parsed from its Newick text' % o)); break
        return bad
