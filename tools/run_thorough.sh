#!/bin/bash
# run_thorough.sh <ID>... : runs the thorough tier of each property in turn, logging exit code, wall time and peak memory
cd /verif
for p in "$@"; do
  /usr/bin/time -f "$p exit=%x wall=%es maxrss=%MkB" ./check $p --tier thorough > build/thorough_$p.out 2> build/thorough_$p.err
  tail -1 build/thorough_$p.err >> build/thorough_run.log
  grep -h "VIOLATION" build/thorough_$p.out >> build/thorough_run.log
done
echo "all done" >> build/thorough_run.log
