#!/bin/bash
# regress_mutants.sh : every seeded change (own property) and every reverted fix (its properties) must still be caught.
# Applies each patch to /repo in turn (tools/mutant_eval.py restores it); log in build/regress.log.  /repo must be clean.
cd /verif
: > build/regress${VERIF_SEED:+_seed$VERIF_SEED}.log
for d in seeded/*/; do
  id=$(basename $d); p=${id%%_*}
  r=$(python3 tools/mutant_eval.py $d/patch.diff $p 2>&1 | grep "CAUGHT_BY")
  echo "$id $r" >> build/regress${VERIF_SEED:+_seed$VERIF_SEED}.log
done
declare -A REV=( [949cdab]="C02" [33630c1]="C02" [5be90c2]="C03" [9df4f49]="C03" [9fc4f1e]="C04" [68bb95d]="C09" [ea649b0]="C05" [b7da1b0]="C06"
  [b1205a2]="C07" [56b51df]="C13" [67dbc61]="C14" [98c99fb]="C14" [44d18fb]="C20" [c3db2b2]="C20" [c88b474]="C20" [d14f389]="C18" [574de74]="C20" )
mkdir -p build/revpatches
for h in "${!REV[@]}"; do
  [ -s build/revpatches/rev_$h.diff ] || git -C /repo diff $h $h^ -- src > build/revpatches/rev_$h.diff
  r=$(python3 tools/mutant_eval.py build/revpatches/rev_$h.diff ${REV[$h]} 2>&1 | grep "CAUGHT_BY")
  echo "revert_$h $r" >> build/regress${VERIF_SEED:+_seed$VERIF_SEED}.log
done
echo "regression done" >> build/regress${VERIF_SEED:+_seed$VERIF_SEED}.log
