#!/usr/bin/env python3
"""vmcheck.py - guards the extraction and the OCaml driver: a sample of the cases of a run is evaluated a second time INSIDE Coq
(vm_compute on the same Gallina `run_case`) and must give exactly the observations the extracted program printed.
The script lines and the printed tokens are translated to Gallina terms here (a second, independent reading of both formats)."""
import os, subprocess, re
import vf

def g_nat(s):
    return '%d' % int(s)

def g_str(tok):
    body = tok[1:]
    if body == '':
        return '(@nil N)'
    return '[' + '; '.join('%s%%N' % x for x in body.split('.')) + ']'

def g_ostr(tok):
    return 'None' if tok == '-' else '(Some %s)' % g_str(tok)

def g_q(num_hex, den_hex):
    neg = num_hex.startswith('-')
    n = int(num_hex[1:] if neg else num_hex, 16)
    d = int(den_hex, 16)
    return '(XF (Qmake (%s%d)%%Z %d%%positive))' % ('-' if neg else '', n, d)

def g_len_in(tok):
    """L<bits>:<num>:<den> script token"""
    if tok == '-':
        return None
    _, num, den = tok[1:].split(':')
    if num == 'inf':
        return '(XInf false)'
    if num == '-inf':
        return '(XInf true)'
    if num == 'nan':
        return 'XNaN'
    return g_q(num, den)

def g_olen_in(tok):
    v = g_len_in(tok)
    return 'None' if v is None else '(Some %s)' % v

def g_len_out(tok):
    body = tok[1:]
    if body == 'inf':
        return '(XInf false)'
    if body == '-inf':
        return '(XInf true)'
    if body == 'nan':
        return 'XNaN'
    n, d = body.split('/')
    return g_q(n, d)

def g_bool(s):
    return 'true' if s == '1' else 'false'

SIMPLE = {'new': 'ONew', 'upgma': 'OUpgma', 'compress': 'OCompress', 'ladderize': 'OLadderize', 'reset_depths': 'OResetDepths',
          'reset_cache': 'OResetCache', 'dump': 'ODump', 'size': 'OSize', 'n_leaves': 'ONLeaves', 'get_root': 'OGetRoot', 'get_leaves': 'OGetLeaves',
          'get_leaf_names': 'OGetLeafNames', 'is_binary': 'OIsBinary', 'is_rooted': 'OIsRooted', 'unique_tips': 'OUniqueTips', 'height': 'OHeight',
          'diameter': 'ODiameter', 'length': 'OLength', 'cherries': 'OCherries', 'colless': 'OColless', 'sackin': 'OSackin', 'partitions': 'OPartitions',
          'dm': 'ODm', 'dmr': 'ODmr', 'dm_store': 'ODmStore', 'to_newick': 'OToNewick', 'to_nexus': 'OToNexus', 'rt_newick': 'ORtNewick',
          'm_iter': 'OMIter', 'm_indexed': 'OMIndexed', 'm_to_map': 'OMToMap', 'm_min': 'OMMin', 'm_max': 'OMMax', 'm_dump': 'OMDump'}
ONE_NAT = {'sel': 'OSel', 'prune': 'OPrune', 'preorder': 'OPre', 'postorder': 'OPost', 'inorder': 'OIn', 'levelorder': 'OLevel', 'subtree': 'OSubtree',
           'descendants': 'ODesc', 'subtree_leaves': 'OSubLeaves', 'path': 'OPath', 'get': 'OGet', 'rf': 'ORf', 'rf_norm': 'ORfNorm', 'wrf': 'OWrf', 'kf': 'OKf',
           'cmp_topo': 'OCmpTopo', 'm_sel': 'OMSel', 'm_with_size': 'OMWithSize', 'reparse': 'OReparse'}

def g_op(line):
    """harness/model script line -> Gallina op term, or None if unsupported (the case is then not sampled)"""
    a = line.split()
    try:
        if a[0] in SIMPLE and len(a) == 1:
            return SIMPLE[a[0]]
        if a[0] in ONE_NAT and len(a) == 2:
            return '(%s %s)' % (ONE_NAT[a[0]], g_nat(a[1]))
        if a[0] == 'add':
            return '(OAdd %s %s)' % (g_ostr(a[1]), g_ostr(a[2]))
        if a[0] == 'add_child':
            return '(OAddChild %s %s %s %s)' % (g_nat(a[1]), g_ostr(a[2]), g_olen_in(a[3]), g_ostr(a[4]))
        if a[0] == 'parse':
            return '(OParse %s)' % g_str(a[1])
        if a[0] == 'resolve':
            prs = ['(%s%%nat, %s%%nat)' % (g_nat(a[i]), g_nat(a[i + 1])) for i in range(1, len(a) - 1, 2)]
            return '(OResolve [%s])' % '; '.join(prs) if prs else '(OResolve (@nil (nat * nat)))'
        if a[0] == 'rescale':
            return '(ORescale %s)' % g_len_in(a[1])
        if a[0] == 'merge':
            return '(OMerge %s %s %s %s %s %s)' % (g_nat(a[1]), g_nat(a[2]), g_olen_in(a[3]), g_olen_in(a[4]), g_olen_in(a[5]), g_ostr(a[6]))
        if a[0] in ('lca', 'dist'):
            return '(%s %s %s)' % ('OLca' if a[0] == 'lca' else 'ODist', g_nat(a[1]), g_nat(a[2]))
        if a[0] == 'to_fmt':
            return '(OToFmt (fmt_of_nat %s))' % g_nat(a[1])
        if a[0] == 'rt_fmt':
            return '(ORtFmt (fmt_of_nat %s))' % g_nat(a[1])
        if a[0] == 'get_by_name':
            return '(OGetByName %s)' % g_str(a[1])
        if a[0] == 'set_name':
            return '(OSetName %s %s)' % (g_nat(a[1]), g_str(a[2]))
        if a[0] == 'rename_by_name':
            return '(ORenameByName %s %s)' % (g_str(a[1]), g_str(a[2]))
        if a[0] == 'cmp_branch':
            return '(OCmpBranch %s %s)' % (g_nat(a[1]), g_bool(a[2]))
        if a[0] == 'm_new':
            n = int(a[1])
            taxa = '[' + '; '.join(g_str(x) for x in a[2:2 + n]) + ']' if n else '(@nil str)'
            vals = '[' + '; '.join(g_len_in(x) for x in a[2 + n:]) + ']' if a[2 + n:] else '(@nil xq)'
            return '(OMNew %s %s)' % (taxa, vals)
        if a[0] == 'm_get':
            return '(OMGet %s %s)' % (g_str(a[1]), g_str(a[2]))
        if a[0] == 'm_set':
            return '(OMSet %s %s %s)' % (g_str(a[1]), g_str(a[2]), g_len_in(a[3]))
        if a[0] == 'm_phylip':
            return '(OMPhylip %s)' % g_bool(a[1])
        if a[0] == 'm_from_strict':
            return '(OMFromStrict %s %s)' % (g_str(a[1]), g_bool(a[2]))
        if a[0] == 'm_from_tril':
            return '(OMFromTril %s)' % g_str(a[1])
        if a[0] == 'm_rt':
            return '(OMRt %s %s)' % ('true' if a[1] == 'tril' else 'false', g_bool(a[2]))
    except (ValueError, IndexError):
        return None
    return None

KW = {'size': 'Ksize', '|': 'Kbar', 'X': 'KX', '{': 'Klbrace', '}': 'Krbrace', ';': 'Ksemi', '[': 'Klbrack', ']': 'Krbrack', 'taxa': 'Ktaxa',
      'cells': 'Kcells', 'branches': 'Kbranches', 'nodes': 'Knodes'}
ERRS = {'IsNotBinary', 'IsNotRooted', 'IsEmpty', 'RootNotFound', 'UnnamedLeaves', 'DuplicateLeafNames', 'LeafIndexNotInitialized', 'MissingBranchLengths',
        'DifferentTipIndices', 'NodeNotFound', 'CouldNotCompressNode', 'MergingNonSiblingNodes', 'NodeError', 'WhiteSpaceInNumber', 'UnclosedBracket',
        'NoClosingSemicolon', 'NoSubtreeParent', 'FloatError', 'MissingTaxon', 'IndexError', 'NonZeroIdenticalDistance', 'SizeError', 'EmptyMatrixFile',
        'SizeParseError', 'EmptyRow', 'DistParseError', 'SizeAndRowsMismatch', 'NonZeroDiagonalValue', 'NonSymmetric'}

def g_tok(t):
    if t in KW:
        return 'TK %s' % KW[t]
    if t == '-':
        return 'TNone'
    if t.isdigit():
        return 'TNat %s' % t
    if t[0] == 's':
        return 'TStr %s' % g_str(t)
    if t[0] == 'q':
        return 'TLen %s' % g_len_out(t)
    if t[0] == 'b' and set(t[1:]) <= set('01'):
        return 'TBits [%s]' % '; '.join('true' if c == '1' else 'false' for c in t[1:]) if t[1:] else 'TBits (@nil bool)'
    if t[0] == 'r':
        items = [x for x in t[1:].split('.') if x != '']
        if not items:
            return 'TRs (@nil (@rch xq))'
        return 'TRs [%s]' % '; '.join(('Lv %s' % g_len_out(x)) if x[0] == 'q' else ('C %s%%N' % x) for x in items)
    raise ValueError(t)

def g_res(line):
    """printed model observation -> Gallina res term; None if it cannot be expressed (ambiguous error names, panics ...)"""
    if line[0] == 'ok':
        try:
            toks = [g_tok(t) for t in line[1:]]
        except ValueError:
            return None
        return '(ROk [%s])' % '; '.join(toks) if toks else '(ROk (@nil tok))'
    if line[0] == 'err' and len(line) > 1 and line[1] in ERRS:
        return '(RErr %s)' % line[1]
    if line[0] == 'invalid':
        return 'RInvalid'
    return None

def cross_evaluate(cases, model_out, workdir, max_cases=25, max_ops=60, max_chars=60000):
    """returns dict(sampled, agreed, failed: [cid], skipped)"""
    picked = []
    for c in cases:
        if len(picked) >= max_cases:
            break
        if c.meta.get('impl_only'):
            continue
        mops = c.meta.get('model_ops')
        ml = model_out.get(c.cid)
        if not mops or not ml or len(mops) != len(ml) or len(mops) > max_ops:
            continue
        ops = []; exp = []; ok = True
        for o, l in zip(mops, ml):
            if l[0] == 'skip':
                continue
            go = g_op(o); gr = g_res(l)
            if go is None or gr is None:
                ok = False; break
            ops.append(go); exp.append(gr)
        if not ok or not ops:
            continue
        if sum(len(x) for x in ops) + sum(len(x) for x in exp) > max_chars:
            continue
        picked.append((c.cid, ops, exp))
    res = {'sampled': len(picked), 'agreed': 0, 'failed': []}
    if not picked:
        return res
    os.makedirs(workdir, exist_ok=True)
    path = os.path.join(workdir, 'VmCases.v')
    with open(path, 'w') as f:
        f.write('From Coq Require Import QArith.\nFrom PT Require Import Script.\nLocal Close Scope Q_scope.\nLocal Open Scope nat_scope.\nLocal Open Scope list_scope.\nImport ListNotations.\n')
        for k, (cid, ops, exp) in enumerate(picked):
            f.write('Definition ops_%d : list op := [%s].\n' % (k, ';\n  '.join(ops)))
            f.write('Definition exp_%d : list res := [%s].\n' % (k, ';\n  '.join(exp)))
            f.write('Goal run_case ops_%d = exp_%d. Proof. vm_compute. reflexivity. Qed.\n' % (k, k))
    # compile goal by goal is slow; compile all, on failure bisect by compiling individually
    r = subprocess.run('timeout 600 coqc -Q %s PT -o %s %s' % (os.path.join(vf.VERIF, 'coq/theories'), os.path.join(workdir, 'VmCases.vo'), path),
                       shell=True, capture_output=True, text=True)
    if r.returncode == 0:
        res['agreed'] = len(picked)
        return res
    # find the failing goals
    for k, (cid, ops, exp) in enumerate(picked):
        p1 = os.path.join(workdir, 'VmCase_%d.v' % k)
        with open(p1, 'w') as f:
            f.write('From Coq Require Import QArith.\nFrom PT Require Import Script.\nLocal Close Scope Q_scope.\nLocal Open Scope nat_scope.\nLocal Open Scope list_scope.\nImport ListNotations.\n')
            f.write('Definition ops_0 : list op := [%s].\nDefinition exp_0 : list res := [%s].\n' % (';\n  '.join(ops), ';\n  '.join(exp)))
            f.write('Goal run_case ops_0 = exp_0. Proof. vm_compute. reflexivity. Qed.\n')
        r1 = subprocess.run('timeout 300 coqc -Q %s PT -o %s %s' % (os.path.join(vf.VERIF, 'coq/theories'), os.path.join(workdir, 'VmCase_%d.vo' % k), p1),
                            shell=True, capture_output=True, text=True)
        if r1.returncode == 0:
            res['agreed'] += 1
        else:
            res['failed'].append(cid)
            res.setdefault('log', (r1.stdout + r1.stderr)[-800:])
    return res
