#!/bin/bash
# coverage.sh : measures which lines of /repo/src the correspondence scripts of the LAST runs (build/work/<ID>/impl*_0.txt) execute.
# Not a check: a tool for finding parts of the crate the generators do not reach.  Needs the nightly toolchain's llvm-tools
# (llvm-profdata, llvm-cov); the instrumented harness is built with the default toolchain into a scratch target dir that is removed.
set -e
T=$(ls -d /root/.rustup/toolchains/nightly-x86_64-unknown-linux-gnu/lib/rustlib/x86_64-unknown-linux-gnu/bin)
S=$(mktemp -d /tmp/ptcov.XXXXXX)
cd /verif/harness
CARGO_TARGET_DIR=$S/target CARGO_NET_OFFLINE=true RUSTFLAGS="--cfg phylotree_verif -C instrument-coverage" cargo build --offline 2>&1 | tail -1
cd /verif/build/work
for d in C*; do
  n=0
  for f in $d/impl*_0.txt; do
    [ -f "$f" ] || continue
    n=$((n+1)); [ $n -gt 16 ] && break       # thorough runs leave hundreds of chunks; 16 shards are enough for a coverage estimate
    LLVM_PROFILE_FILE=$S/$d-%p.profraw timeout 600 $S/target/debug/pt_harness $f > /dev/null 2>&1 || true
  done
done
$T/llvm-profdata merge -sparse $S/*.profraw -o $S/all.profdata
$T/llvm-cov report $S/target/debug/pt_harness -instr-profile=$S/all.profdata /repo/src | tee /verif/build/coverage_report.txt
$T/llvm-cov show $S/target/debug/pt_harness -instr-profile=$S/all.profdata /repo/src -show-line-counts-or-regions=false 2>/dev/null \
  | awk '/^\/repo/{f=$0} /^ +[0-9]+\| +0\|/{print f" "$0}' > /verif/build/coverage_missed_lines.txt
wc -l /verif/build/coverage_missed_lines.txt
rm -rf $S
