#!/usr/bin/env python3
"""vf.py - core of the correspondence check: builds, case execution on implementation and model,
token-level comparison, evidence.  Python 3 stdlib only."""
import os, sys, subprocess, struct, json, time, hashlib, math, re, shutil
from fractions import Fraction
from concurrent.futures import ThreadPoolExecutor

VERIF = '/verif'
BUILD = os.path.join(VERIF, 'build')
HARNESS_BIN = os.path.join(BUILD, 'target/debug/pt_harness')
HARNESS_REL = os.path.join(BUILD, 'target/release/pt_harness')
MODEL_BIN = os.path.join(BUILD, 'ocaml/pt_model')
NCPU = 16

# ----------------------------------------------------------------------------------------------------
# encoding helpers
def enc_str(s):
    return 's' + '.'.join(str(ord(c)) for c in s)

def enc_ostr(s):
    return '-' if s is None else enc_str(s)

def dec_str(tok):
    body = tok[1:]
    if body == '':
        return ''
    return ''.join(chr(int(x)) for x in body.split('.'))

def f64_bits(x):
    return struct.unpack('>Q', struct.pack('>d', x))[0]

def bits_f64(b):
    return struct.unpack('>d', struct.pack('>Q', b))[0]

def f32_bits(x):
    return struct.unpack('>I', struct.pack('>f', x))[0]

def bits_f32(b):
    return struct.unpack('>f', struct.pack('>I', b))[0]

def frac_tok(fr):
    """rational part of a length token: num:den in hex"""
    n, d = fr.numerator, fr.denominator
    return ('-' if n < 0 else '') + format(abs(n), 'x') + ':' + format(d, 'x')

def enc_len(x):
    """python float (or None) -> L<bits>:<num>:<den>"""
    if x is None:
        return '-'
    b = f64_bits(x)
    if math.isnan(x):
        return 'L%016x:nan:1' % b
    if math.isinf(x):
        return 'L%016x:%s:1' % (b, 'inf' if x > 0 else '-inf')
    return 'L%016x:%s' % (b, frac_tok(Fraction(x)))

def enc_len32(x):
    """python float holding an exactly representable f32"""
    b = f32_bits(x)
    if math.isnan(x):
        return 'L%08x:nan:1' % b
    if math.isinf(x):
        return 'L%08x:%s:1' % (b, 'inf' if x > 0 else '-inf')
    return 'L%08x:%s' % (b, frac_tok(Fraction(bits_f32(b))))

class Num:
    """a decoded numeric token: finite Fraction, or 'inf' / '-inf' / 'nan'"""
    __slots__ = ('v',)
    def __init__(self, v):
        self.v = v
    def finite(self):
        return isinstance(self.v, Fraction)
    def __repr__(self):
        return 'Num(%s)' % (float(self.v) if self.finite() else self.v)

def num_of_float(x):
    if math.isnan(x):
        return Num('nan')
    if math.isinf(x):
        return Num('inf' if x > 0 else '-inf')
    return Num(Fraction(x))

def decode_num(tok):
    """f<16hex> | g<8hex> | q<num>/<den> | qinf | q-inf | qnan -> Num ; else None"""
    c = tok[0]
    try:
        if c == 'f' and len(tok) == 17:
            return num_of_float(bits_f64(int(tok[1:], 16)))
        if c == 'g' and len(tok) == 9:
            return num_of_float(bits_f32(int(tok[1:], 16)))
        if c == 'q':
            body = tok[1:]
            if body == 'inf':
                return Num('inf')
            if body == '-inf':
                return Num('-inf')
            if body == 'nan':
                return Num('nan')
            n, d = body.split('/')
            neg = n.startswith('-')
            if neg:
                n = n[1:]
            v = Fraction(int(n, 16), int(d, 16))
            return Num(-v if neg else v)
    except ValueError:
        return None
    return None

F64_MAX = Fraction(2) ** 1024
F64_TINY = Fraction(1, 2 ** 1075)

def num_eq(a, b, tol, scale=Fraction(0)):
    """a: implementation value, b: model value.  tol None = exact."""
    if not a.finite() or not b.finite():
        if a.finite() != b.finite():
            # a model rational beyond the f64 range corresponds to an implementation infinity
            if b.finite() and not a.finite() and a.v in ('inf', '-inf'):
                return abs(b.v) >= F64_MAX / 2 and ((b.v > 0) == (a.v == 'inf'))
            return False
        return a.v == b.v
    if a.v == b.v:
        return True
    # decimal text below the subnormal range rounds to zero / the nearest subnormal: half the smallest subnormal is the absolute floor
    if abs(a.v - b.v) <= F64_TINY:
        return True
    if tol is None:
        return False
    m = max(abs(a.v), abs(b.v), scale)
    return abs(a.v - b.v) <= Fraction(tol) * m

FLOAT_RE = re.compile(r'-?(?:inf|NaN|[0-9]+(?:\.[0-9]+)?(?:e-?[0-9]+)?)')

def match_rich(impl_s, model_tok, tol):
    """impl_s: decoded implementation string; model_tok: r<items> with embedded q-lengths.
    Every embedded length must appear in the implementation text as a decimal that reads back (correctly
    rounded) to that value."""
    items = model_tok[1:].split('.') if len(model_tok) > 1 else []
    pos = 0
    scale = line_scale([it for it in items if it and it[0] == 'q']) if tol else Fraction(0)
    for it in items:
        if it == '':
            continue
        if it[0] == 'q':
            m = FLOAT_RE.match(impl_s, pos)
            if not m:
                return False
            txt = m.group(0)
            try:
                x = float(txt)
            except ValueError:
                return False
            if not num_eq(num_of_float(x), decode_num(it), tol, scale):
                return False
            pos = m.end()
        else:
            if pos >= len(impl_s) or ord(impl_s[pos]) != int(it):
                return False
            pos += 1
    return pos == len(impl_s)

def split_sets(toks):
    """split a token list into top-level segments: ('seq', [...]) and ('set', [[...], ...])"""
    out = []
    cur = []
    i = 0
    while i < len(toks):
        t = toks[i]
        if t == '{':
            if cur:
                out.append(('seq', cur)); cur = []
            j = i + 1
            items = []; item = []
            while j < len(toks) and toks[j] != '}':
                if toks[j] == ';':
                    items.append(item); item = []
                else:
                    item.append(toks[j])
                j += 1
            if item:
                items.append(item)
            out.append(('set', items))
            i = j + 1
        else:
            cur.append(t); i += 1
    if cur:
        out.append(('seq', cur))
    return out

def safe_float(fr):
    try:
        return float(fr)
    except OverflowError:
        return math.inf if fr > 0 else -math.inf

def tok_key(t):
    n = decode_num(t) if t and t[0] in 'fgq' else None
    if n is not None:
        if n.finite():
            return (1, safe_float(n.v), '')
        return (2, 0.0, str(n.v))
    if t and t[0] in 'sr':
        return (0, 0.0, t[1:])
    return (0, 0.0, t)

def item_key(item):
    return tuple(tok_key(t) for t in item)

def seq_eq(a, b, tol, scale):
    if len(a) != len(b):
        return False
    for x, y in zip(a, b):
        if x == y:
            continue
        if not x or not y:
            return False
        if x[0] in 'fg' and y[0] == 'q':
            nx, ny = decode_num(x), decode_num(y)
            if nx is None or ny is None or not num_eq(nx, ny, tol, scale):
                return False
            continue
        if x[0] == 's' and y[0] == 'r':
            if not match_rich(dec_str(x), y, tol):
                return False
            continue
        if x[0] == 's' and y[0] == 's' and x == y:
            continue
        return False
    return True

def line_scale(toks):
    m = Fraction(0)
    for t in toks:
        if t and t[0] == 'q':
            n = decode_num(t)
            if n is not None and n.finite():
                m = max(m, abs(n.v))
    return m

def compare_ok(op, impl_toks, model_toks, tol, abs_scale=None):
    """generic comparison of two `ok` token lists"""
    scale = line_scale(model_toks)
    if abs_scale is not None and tol:
        scale = max(scale, Fraction(abs_scale))
    si, sm = split_sets(impl_toks), split_sets(model_toks)
    if len(si) != len(sm):
        return False
    for (ki, vi), (km, vm) in zip(si, sm):
        if ki != km:
            return False
        if ki == 'seq':
            if not seq_eq(vi, vm, tol, scale):
                return False
        else:
            if op and op[0].endswith('to_map'):
                # HashMap keyed by the pair of names: identical entries (duplicate taxon names) collapse
                vm = [list(x) for x in sorted(set(tuple(y) for y in vm))]
            if len(vi) != len(vm):
                return False
            a = sorted(vi, key=item_key)
            b = sorted(vm, key=item_key)
            if not all(seq_eq(x, y, tol, scale) for x, y in zip(a, b)):
                # near-ties in a leading component can sort the two lists differently (rounded vs exact values): match the items as sets
                if not tol or len(a) > 4000:
                    return False
                rest = list(b)
                for x in a:
                    for k, y in enumerate(rest):
                        if seq_eq(x, y, tol, scale):
                            del rest[k]
                            break
                    else:
                        return False
    return True

# ---- special comparators (functions the model does not evaluate: sqrt, ln, powf, division to f64) ----
def fl(tok):
    return bits_f64(int(tok[1:], 16))

def close(a, b, rel=1e-9):
    if math.isnan(a) or math.isnan(b):
        return math.isnan(a) and math.isnan(b)
    if a == b:
        return True
    return abs(a - b) <= rel * max(abs(a), abs(b), 1e-300)

def q2f(tok):
    n = decode_num(tok)
    if n.finite():
        return safe_float(n.v)
    return {'inf': math.inf, '-inf': -math.inf, 'nan': math.nan}[n.v]

def cmp_special(op, it, mt, tol, abs_scale=None):
    name = op[0]
    sc = float(abs_scale) if (abs_scale is not None and tol) else 0.0
    try:
        if name == 'rf_norm':
            rf, tot = int(mt[0]), int(mt[1])
            exp = (rf / tot) if tot else math.nan
            return close(fl(it[0]), exp, 1e-15)
        if name == 'kf':
            e = math.sqrt(q2f(mt[0]))
            return close(fl(it[0]), e, 1e-9 if tol else 1e-14) or abs(fl(it[0]) - e) <= 1e-9 * sc
        if name == 'cmp_topo':
            rf, tot = int(mt[0]), int(mt[1])
            ok = fl(it[0]) == float(rf)
            ok = ok and close(fl(it[1]), (rf / tot) if tot else math.nan, 1e-15)
            ok = ok and num_eq(decode_num(it[2]), decode_num(mt[2]), tol, max(line_scale(mt), Fraction(sc)))
            e3 = math.sqrt(q2f(mt[3]))
            ok = ok and (close(fl(it[3]), e3, 1e-9 if tol else 1e-14) or abs(fl(it[3]) - e3) <= 1e-9 * sc)
            return ok
        if name in ('colless_yule', 'sackin_yule', 'colless_pda', 'sackin_pda'):
            idx, n = int(mt[0]), int(mt[1])
            if name == 'colless_yule':
                # the definition, with Euler's constant to full precision: E_Yule[I_c] = n ln n + n (gamma - 1 - ln 2).  The crate writes the
                # constant with 8 digits (a deviation of 4.9e-9 in the normalised index); any better constant must pass, a worse one must not
                e = n * math.log(n) + (0.5772156649015329 - 1. - math.log(2.0)) * n
                exp = (idx - e) / n
                return abs(fl(it[0]) - exp) <= 1e-8 + 1e-12 * abs(exp)
            elif name == 'sackin_yule':
                s = sum(1.0 / i for i in range(2, n + 1))
                exp = (idx - 2.0 * n * s) / n
            else:
                exp = idx / math.pow(n, 1.5)
            return close(fl(it[0]), exp, 1e-12)
        if name == 'layout':
            f = 1.0
            if len(op) > 1:
                f = bits_f64(int(op[1][1:].split(':')[0], 16))
            return cmp_layout(it, mt, f)
        if name == 'to_nexus':
            n = int(mt[0])
            j = mt.index(']')
            labels = ' '.join(dec_str(x) for x in mt[2:j])
            nwk = mt[j + 1]
            pre = "#NEXUS\nBEGIN TAXA;\n    DIMENSIONS NTAX=%d;\n    TAXLABELS %s;\nEND;\nBEGIN TREES;\n    TREE tree1 = " % (n, labels)
            suf = "\nEND;\n"
            items = [str(ord(c)) for c in pre] + [x for x in nwk[1:].split('.') if x != ''] + [str(ord(c)) for c in suf]
            return match_rich(dec_str(it[0]), 'r' + '.'.join(items), tol)
    except (ValueError, IndexError, ZeroDivisionError):
        return False
    return None

def cmp_layout(it, mt, factor=1.0):
    # impl: branches [ xs ys xe ye ; ... ] nodes [ x y label ; ... ] ; model: branches [ u v d ang name ; ...]
    def groups(toks, start):
        assert toks[start + 1] == '['
        i = start + 2
        out = []; cur = []
        while toks[i] != ']':
            if toks[i] == ';':
                out.append(cur); cur = []
            else:
                cur.append(toks[i])
            i += 1
        return out, i + 1
    ib, nxt = groups(it, 0)
    inn, _ = groups(it, nxt)
    mb, _ = groups(mt, 0)
    if len(ib) != len(mb) or len(inn) != len(mb):
        return False
    pos = {}
    scale = 1e-300
    for seg in mb:
        scale = max(scale, abs(q2f(seg[2])))
    first = True
    for (xs, ys, xe, ye), (x, y, lab), (u, v, d, ang, nm) in zip(ib, inn, mb):
        u, v = int(u), int(v)
        if first:
            pos[u] = (0.0, 0.0); first = False
        if u not in pos:
            return False
        d = q2f(d); a = 2 * math.pi * q2f(ang)
        px, py = pos[u]
        ex, ey = px + d * math.cos(a), py + d * math.sin(a)
        pos[v] = (ex, ey)
        tolr = 1e-9 * max(scale * len(mb), 1e-300) * max(abs(factor), 1e-300)
        for got, want in ((fl(xs), px), (fl(ys), py), (fl(xe), ex), (fl(ye), ey), (fl(x), ex), (fl(y), ey)):
            if abs(got - want * factor) > tolr:
                return False
        if lab != nm:
            return False
    return True

# ----------------------------------------------------------------------------------------------------
# building
def sh(cmd, cwd=None, timeout=None, env=None):
    e = dict(os.environ)
    e['CARGO_NET_OFFLINE'] = 'true'
    if env:
        e.update(env)
    return subprocess.run(cmd, shell=True, cwd=cwd, stdout=subprocess.PIPE, stderr=subprocess.STDOUT,
                          timeout=timeout, env=e, text=True)

def build_harness(release=False):
    """(re)builds the harness against /repo's current working tree.  Returns (ok, log)."""
    os.makedirs(BUILD, exist_ok=True)
    lock = os.path.join(VERIF, 'harness/Cargo.lock')
    if not os.path.exists(lock):
        shutil.copy('/repo/Cargo.lock', lock)
    r = sh('cargo build --offline' + (' --release' if release else ''), cwd=os.path.join(VERIF, 'harness'), timeout=1800)
    return r.returncode == 0, r.stdout

def build_model():
    r = sh(os.path.join(VERIF, 'tools/build_model.sh'), timeout=3600)
    return r.returncode == 0, r.stdout

# ----------------------------------------------------------------------------------------------------
# running
class Case:
    __slots__ = ('cid', 'ops', 'meta')
    def __init__(self, cid, ops, meta=None):
        self.cid = cid          # string without spaces
        self.ops = ops          # list of op strings (harness syntax)
        self.meta = meta or {}

def write_script(path, cases, model=False):
    with open(path, 'w') as f:
        for c in cases:
            f.write('case %s\n' % c.cid)
            for o in (c.meta['model_ops'] if model else c.ops):
                f.write(o + '\n')

def parse_output(text):
    """-> dict cid -> list of lines (tokens lists)"""
    out = {}
    cur = None
    for line in text.split('\n'):
        if not line:
            continue
        if line.startswith('case '):
            cur = line.split(' ')[1]
            out[cur] = []
        elif cur is not None:
            out[cur].append(line.split())
    return out

def _limits():
    # a runaway operation (e.g. a generator that never terminates) must not exhaust the machine
    import resource
    try:
        resource.setrlimit(resource.RLIMIT_AS, (6 * 1024 ** 3, 6 * 1024 ** 3))
    except (ValueError, OSError):
        pass

def run_bin(binary, path, timeout):
    try:
        r = subprocess.run([binary, path], stdout=subprocess.PIPE, stderr=subprocess.DEVNULL, timeout=timeout, preexec_fn=_limits)
        return r.returncode, r.stdout.decode('utf-8', 'replace'), False
    except subprocess.TimeoutExpired as e:
        return -1, (e.stdout or b'').decode('utf-8', 'replace'), True

def run_shard_robust(binary, cases, workdir, tag, model, timeout):
    """runs the cases; a crash (abort, stack overflow) or hang inside one case is recorded as an
    observation for that case and the remaining cases are re-run."""
    results = {}
    pending = list(cases)
    rnd = 0
    hangs = 0
    while pending:
        if hangs >= 2:
            # two confirmed hangs in this shard: the run is a violation already; do not spend the time limit on every further case
            for c in pending:
                results[c.cid] = [['not-run-after-hangs']]
            break
        path = os.path.join(workdir, '%s_%d.txt' % (tag, rnd))
        write_script(path, pending, model)
        # the time limit grows with the amount of work in the shard (a hang is a case that exceeds it on its own)
        nops = sum(len(c.meta['model_ops'] if model else c.ops) for c in pending)
        rc, out, timed_out = run_bin(binary, path, (timeout + 0.1 * len(pending) + 0.002 * nops) * (3 if model else 1))
        parsed = parse_output(out)
        if rc == 0 and not timed_out:
            results.update(parsed)
            break
        # find the case where it stopped: the last case present in the output
        done = [c for c in pending if c.cid in parsed]
        if not done:
            culprit = pending[0]
            nops0 = len(culprit.meta['model_ops'] if model else culprit.ops)
            if timed_out and len(pending) > 1:
                solo = os.path.join(workdir, '%s_%d_solo.txt' % (tag, rnd))
                write_script(solo, [culprit], model)
                rc2, out2, to2 = run_bin(binary, solo, (timeout * 6 if model else timeout) + 0.01 * nops0)
                p2 = parse_output(out2)
                if rc2 == 0 and not to2 and culprit.cid in p2:
                    results[culprit.cid] = p2[culprit.cid]
                    pending = pending[1:]
                    rnd += 1
                    continue
            results[culprit.cid] = [['hang' if timed_out else 'crash']]
            hangs += 1 if timed_out else 0
            pending = pending[1:]
        else:
            culprit = done[-1]
            for c in done[:-1]:
                results[c.cid] = parsed[c.cid]
            nops = len(culprit.meta['model_ops'] if model else culprit.ops)
            got = parsed[culprit.cid]
            if timed_out:
                # the shard's time budget ran out while this case was running: that alone does not make it a hang (machine load, a long
                # shard).  Run it again on its own with a fresh budget (a larger one for the model, whose exact arithmetic is slower).
                solo = os.path.join(workdir, '%s_%d_solo.txt' % (tag, rnd))
                write_script(solo, [culprit], model)
                rc2, out2, to2 = run_bin(binary, solo, (timeout * 6 if model else timeout) + 0.01 * nops)
                p2 = parse_output(out2)
                if rc2 == 0 and not to2 and culprit.cid in p2:
                    results[culprit.cid] = p2[culprit.cid]
                    pending = pending[pending.index(culprit) + 1:]
                    rnd += 1
                    continue
                if culprit.cid in p2 and len(p2[culprit.cid]) > len(got):
                    got = p2[culprit.cid]; timed_out = to2
            got = got + [['hang' if timed_out else 'crash']] * (nops - len(got))
            hangs += 1 if timed_out else 0
            results[culprit.cid] = got
            pending = pending[pending.index(culprit) + 1:]
        rnd += 1
        pass
    return results

def shard(lst, n):
    k = max(1, min(n, len(lst)))
    return [lst[i::k] for i in range(k)]

def derive_model_ops(case, impl_lines):
    """rewrites ops whose random choices must be read back from the implementation's result"""
    mops = []
    ops = case.ops
    picked = []
    for i, o in enumerate(ops):
        a = o.split()
        if a[0] == 'pick':
            try:
                picked = [x for x in impl_lines[i][2:-1]] if impl_lines[i][0] == 'ok' else []
            except IndexError:
                picked = []
            mops.append(o)      # the model driver skips it
            continue
        if '$' in o:
            a = [ (picked[int(x[1:])] if int(x[1:]) < len(picked) else '99999') if x.startswith('$') else x for x in a]
            o = ' '.join(a)
        if a[0] == 'resolve':
            # needs `size` just before and `dump` just after
            try:
                before = int(impl_lines[i - 1][1]) if impl_lines[i - 1][0] == 'ok' else None
                nodes = parse_dump(impl_lines[i + 1][1:]) if impl_lines[i + 1][0] == 'ok' else None
            except (IndexError, ValueError, AssertionError):
                before, nodes = None, None
            if before is None or nodes is None or impl_lines[i][0] != 'ok':
                mops.append('resolve')
            else:
                ch = []
                for nd in nodes[before:]:
                    if nd is not None and len(nd['children']) == 2:
                        ch += [str(nd['children'][0]), str(nd['children'][1])]
                    else:
                        ch += ['0', '0']
                mops.append('resolve ' + ' '.join(ch))
        elif a[0] == 'gen':
            shape, n, brl = a[1], int(a[2]), a[3]
            nodes = None
            try:
                if impl_lines[i][0] == 'ok' and impl_lines[i + 1][0] == 'ok':
                    nodes = parse_dump(impl_lines[i + 1][1:])
            except (IndexError, AssertionError, ValueError):
                nodes = None
            if nodes is None:
                mops.append('gen %s %d %s P L' % (shape, n, brl))
            else:
                ps = []
                ls = []
                for k in range(1, len(nodes), 2):
                    ps.append(str(nodes[k]['parent']))
                if brl == '1':
                    for nd in nodes[1:]:
                        ls.append(len_tok_from_f(nd['pe']))
                if shape == 'caterpillar':
                    ps = []
                mops.append('gen %s %d %s P %s L %s' % (shape, n, brl, ' '.join(ps), ' '.join(ls)))
        else:
            mops.append(o)
    return mops

def len_tok_from_f(tok):
    """f<bits> token -> L token"""
    if tok == '-':
        return '-'
    return enc_len(bits_f64(int(tok[1:], 16)))

def parse_dump(toks):
    """tokens of a dump (after 'ok') -> list of node dicts (None for tombstones)"""
    assert toks[0] == 'size'
    nodes = []
    i = 2
    while i < len(toks):
        assert toks[i] == '|'
        i += 1
        if toks[i] == 'X':
            nodes.append(None); i += 1
            continue
        nd = {'id': int(toks[i]), 'name': toks[i + 1], 'parent': None if toks[i + 2] == '-' else int(toks[i + 2])}
        i += 3
        assert toks[i] == '['
        i += 1
        ch = []
        while toks[i] != ']':
            ch.append(int(toks[i])); i += 1
        i += 1
        nd['children'] = ch
        nd['pe'] = toks[i]; nd['comment'] = toks[i + 1]; nd['depth'] = int(toks[i + 2])
        i += 3
        assert toks[i] == '{'
        i += 1
        edges = {}
        while toks[i] != '}':
            edges[int(toks[i])] = toks[i + 1]; i += 2
        i += 1
        nd['edges'] = edges
        nodes.append(nd)
    return nodes

def run_cases(cases, workdir, binary=None, timeout=300, need_model=True):
    """runs all cases on implementation and model. Returns (impl_results, model_results)."""
    os.makedirs(workdir, exist_ok=True)
    binary = binary or HARNESS_BIN
    shards = shard(cases, NCPU)
    with ThreadPoolExecutor(max_workers=NCPU) as ex:
        futs = [ex.submit(run_shard_robust, binary, s, workdir, 'impl%d' % i, False, timeout) for i, s in enumerate(shards)]
        impl = {}
        for f in futs:
            impl.update(f.result())
    if not need_model:
        return impl, {}
    mcases = [c for c in cases if not c.meta.get('impl_only')]
    for c in mcases:
        c.meta['model_ops'] = derive_model_ops(c, impl.get(c.cid, []))
    shards = shard(mcases, NCPU)
    with ThreadPoolExecutor(max_workers=NCPU) as ex:
        futs = [ex.submit(run_shard_robust, MODEL_BIN, s, workdir, 'model%d' % i, True, timeout) for i, s in enumerate(shards)] if mcases else []
        model = {}
        for f in futs:
            model.update(f.result())
    return impl, model

# error variants that are compared exactly (the properties speak about them); elsewhere class only
def compare_case(case, impl_lines, model_lines, tol, strict_err_ops=()):
    """returns list of (op_index, reason) disagreements"""
    dis = []
    if len(impl_lines) != len(case.ops) or len(model_lines) != len(case.ops):
        return [(-1, 'line count impl=%d model=%d ops=%d' % (len(impl_lines), len(model_lines), len(case.ops)))]
    for i, o in enumerate(case.ops):
        il, ml = impl_lines[i], model_lines[i]
        a = o.split()
        if ml[0] == 'skip':
            continue
        if il[0] != ml[0]:
            dis.append((i, 'class impl=%s model=%s' % (il[0] + (' ' + il[1] if il[0] == 'err' and len(il) > 1 else ''),
                                                      ml[0] + (' ' + ml[1] if ml[0] == 'err' and len(ml) > 1 else ''))))
            continue
        if il[0] == 'err':
            if a[0] in strict_err_ops and il[1] != ml[1]:
                dis.append((i, 'error variant impl=%s model=%s' % (il[1], ml[1])))
            continue
        if il[0] != 'ok':
            continue
        r = cmp_special(a, il[1:], ml[1:], tol, case.meta.get('abs_scale'))
        if r is None:
            r = compare_ok(a, il[1:], ml[1:], tol, case.meta.get('abs_scale'))
        if not r:
            dis.append((i, 'value'))
    return dis

# ----------------------------------------------------------------------------------------------------
def case_hash(case):
    return hashlib.sha1('\n'.join(case.ops).encode()).hexdigest()

def write_replay(path, prop, case, impl_lines, model_lines, reasons, note=''):
    os.makedirs(os.path.dirname(path), exist_ok=True)
    with open(path, 'w') as f:
        f.write('# property %s\n# %s\n' % (prop, note))
        f.write('# replay: %s <this file>   (harness syntax below; lines starting with # are comments)\n' % HARNESS_BIN)
        try:
            import json as _json
            meta = {k: v for k, v in case.meta.items() if k != 'model_ops' and isinstance(v, (int, float, str, bool, type(None)))}
            f.write('#meta %s\n' % _json.dumps(meta))
        except Exception:
            pass
        f.write('case %s\n' % case.cid)
        for o in case.ops:
            f.write(o + '\n')
        f.write('# ---- observations (op index: implementation / model) ----\n')
        for i, o in enumerate(case.ops):
            il = ' '.join(impl_lines[i]) if impl_lines and i < len(impl_lines) else '?'
            ml = ' '.join(model_lines[i]) if model_lines and i < len(model_lines) else '?'
            mark = ''
            for (k, why) in reasons:
                if k == i:
                    mark = '   <== ' + why
            f.write('# %d %s%s\n#    impl : %s\n#    model: %s\n' % (i, o[:200], mark, il[:2000], ml[:2000]))
