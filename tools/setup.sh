#!/bin/bash
# MANIFEST.setup_cmd: builds the framework from files on disk only (offline).
set -e
export CARGO_NET_OFFLINE=true
cd /verif
mkdir -p build
[ -f harness/Cargo.lock ] || cp /repo/Cargo.lock harness/Cargo.lock
(cd harness && cargo build --offline 2>&1 | tail -2)
(cd coq && coq_makefile -f _CoqProject -o Makefile >/dev/null)
tools/build_model.sh
# the real CLI binary (C18); RUSTFLAGS empty: hooks off for the binary
RUSTFLAGS= cargo build --offline --bin phylotree --manifest-path /repo/Cargo.toml --target-dir /verif/build/cli_target 2>&1 | tail -1
echo "setup done"
