#!/bin/bash
# verify_mutants.sh <worktree> : for each MUTANTS/k verify: suite passes with mutant, demo fails with, demo passes without
wt=$1
cd $wt
export CARGO_TARGET_DIR=$wt/target CARGO_NET_OFFLINE=true
for k in 1 2 3; do
  d=MUTANTS/$k
  [ -f $d/patch.diff ] || continue
  git checkout -q -- src Cargo.toml 2>/dev/null; rm -rf tests
  git apply $d/patch.diff || { echo "$wt $k APPLY_FAILED"; continue; }
  suite=$(cargo test --offline 2>&1 | grep -E "^test result" | tr '\n' ' ')
  suite_ok=yes; echo "$suite" | grep -q "FAILED\|[1-9][0-9]* failed" && suite_ok=no
  echo "$suite" | grep -q "48 passed" || suite_ok=no
  mkdir -p tests; cp $d/demo.rs tests/demo_k.rs
  with=$(cargo test --offline --test demo_k 2>&1 | grep -E "^test result|error" | head -2 | tr '\n' ' ')
  git checkout -q -- src
  without=$(cargo test --offline --test demo_k 2>&1 | grep -E "^test result|error" | head -2 | tr '\n' ' ')
  rm -rf tests
  echo "$wt $k suite_ok=$suite_ok | with: $with | without: $without"
done
