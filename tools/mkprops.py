#!/usr/bin/env python3
"""mkprops.py PID imports-file spec-file : generates coq/theories/props/<PID>.v with every statement written out
(obtained from `Check @lemma` with implicit arguments printed so that it re-parses), closed by `exact @lemma`, followed by
Print Assumptions.  spec-file lines: `<TheoremName> <lemma>   # comment`; lines starting with `(*` are copied."""
import sys, subprocess, re, os
pid, hdr, spec = sys.argv[1], sys.argv[2], sys.argv[3]
imports = open(hdr).read()
items = []
for line in open(spec):
    line = line.rstrip('\n')
    if not line.strip():
        continue
    if line.startswith('(*'):
        items.append(('comment', line)); continue
    a = line.split('#')[0].split()
    items.append(('thm', a[0], a[1], line.split('#', 1)[1].strip() if '#' in line else ''))
chk = imports + '\nSet Printing Width 110. Set Printing Depth 100000. Set Printing Implicit.\n'
for it in items:
    if it[0] == 'thm':
        chk += 'Check @%s.\n' % it[2]
open('/tmp/mkprops_chk.v', 'w').write(chk)
r = subprocess.run('coqc -Q /verif/coq/theories PT /tmp/mkprops_chk.v', shell=True, capture_output=True, text=True)
if r.returncode != 0:
    print(r.stdout[-2000:], r.stderr[-2000:]); sys.exit(1)
out = r.stdout
blocks = re.split(r'^(?=@?[A-Za-z_][A-Za-z0-9_\'\.]*\n     : )', out, flags=re.M)
types = {}
for b in blocks:
    m = re.match(r'@?([A-Za-z_][A-Za-z0-9_\'\.]*)\n     : (.*)', b, re.S)
    if m:
        types[m.group(1)] = m.group(2).rstrip()
res = imports + '\n'
for it in items:
    if it[0] == 'comment':
        res += it[1] + '\n'
        continue
    _, name, lemma, comment = it
    ty = types.get(lemma)
    if ty is None:
        print('no type for', lemma); sys.exit(1)
    if comment:
        res += '(* %s *)\n' % comment
    res += 'Theorem %s :\n  %s.\nProof. exact @%s. Qed.\nPrint Assumptions %s.\n\n' % (name, ty.replace('\n', '\n  '), lemma, name)
open(os.path.join('/verif/coq/theories/props', pid + '.v'), 'w').write(res)
r = subprocess.run('coqc -Q /verif/coq/theories PT -o /verif/build/props/%s.vo /verif/coq/theories/props/%s.v' % (pid, pid), shell=True, capture_output=True, text=True)
print('closed:', r.stdout.count('Closed under'), 'of', sum(1 for i in items if i[0] == 'thm'))
if r.returncode != 0:
    print(r.stdout[-1500:], r.stderr[-1500:])
