(* driver.ml — runs the extracted model on case scripts (same format as the Rust harness) and prints the
   observations in the same token format.  Hand-written and trusted: parsing of script tokens into model
   values, printing of model values. *)
open Model

let rec nat_of_int n = if n <= 0 then O else S (nat_of_int (n - 1))
let rec int_of_nat = function O -> 0 | S n -> 1 + int_of_nat n

let rec pos_of_int n = if n = 1 then XH else if n land 1 = 0 then XO (pos_of_int (n lsr 1)) else XI (pos_of_int (n lsr 1))
let n_of_int n = if n = 0 then N0 else Npos (pos_of_int n)
let rec int_of_pos = function XH -> 1 | XO p -> 2 * int_of_pos p | XI p -> 2 * int_of_pos p + 1
let int_of_n = function N0 -> 0 | Npos p -> int_of_pos p

(* big numbers as hex strings <-> positive *)
let hexval c = match c with
  | '0'..'9' -> Char.code c - 48
  | 'a'..'f' -> Char.code c - 87
  | 'A'..'F' -> Char.code c - 55
  | _ -> failwith "hex"

let pos_of_hex (s : string) : positive option =
  (* msb-first bit list *)
  let bits = ref [] in
  String.iter (fun c ->
    let v = hexval c in
    bits := !bits @ [v land 8 = 8; v land 4 = 4; v land 2 = 2; v land 1 = 1]) s;
  let rec strip = function false :: r -> strip r | l -> l in
  match strip !bits with
  | [] -> None
  | _ :: rest ->
    (* leading 1 is XH; following bits msb->lsb *)
    Some (List.fold_left (fun acc b -> if b then XI acc else XO acc) XH rest)

let hex_of_pos (p : positive) : string =
  (* collect bits lsb first *)
  let rec bits p acc = match p with
    | XH -> true :: acc
    | XO q -> bits q (false :: acc)
    | XI q -> bits q (true :: acc) in
  (* bits returns msb-first list because we cons as we descend towards msb... check: p = XO XH (2):
     bits (XO XH) [] -> bits XH [false] -> [true; false] = msb first. ok *)
  let b = bits p [] in
  let n = List.length b in
  let pad = (4 - n mod 4) mod 4 in
  let b = (List.init pad (fun _ -> false)) @ b in
  let buf = Buffer.create 16 in
  let rec go = function
    | b3 :: b2 :: b1 :: b0 :: r ->
      let v = (if b3 then 8 else 0) + (if b2 then 4 else 0) + (if b1 then 2 else 0) + (if b0 then 1 else 0) in
      Buffer.add_char buf "0123456789abcdef".[v]; go r
    | _ -> () in
  go b; Buffer.contents buf

let split_on c s = String.split_on_char c s

let dec_str (tok : string) : n list option =
  if tok = "-" then None
  else
    let body = String.sub tok 1 (String.length tok - 1) in
    if body = "" then Some []
    else Some (List.map (fun x -> n_of_int (int_of_string x)) (split_on '.' body))

let some_str tok = match dec_str tok with Some s -> s | None -> failwith "string expected"

(* L<bits>:<num>:<den>  with num = [-]hex | inf | -inf | nan *)
let dec_len (tok : string) : xq option =
  if tok = "-" then None
  else
    match split_on ':' (String.sub tok 1 (String.length tok - 1)) with
    | [_; num; den] ->
      if num = "inf" then Some (XInf false)
      else if num = "-inf" then Some (XInf true)
      else if num = "nan" then Some XNaN
      else
        let neg = String.length num > 0 && num.[0] = '-' in
        let body = if neg then String.sub num 1 (String.length num - 1) else num in
        let z = match pos_of_hex body with
          | None -> Z0
          | Some p -> if neg then Zneg p else Zpos p in
        let d = match pos_of_hex den with Some p -> p | None -> XH in
        Some (XF { qnum = z; qden = d })
    | _ -> failwith ("bad length token " ^ tok)
let some_len tok = match dec_len tok with Some l -> l | None -> failwith "length expected"

let enc_str (s : n list) : string =
  "s" ^ String.concat "." (List.map (fun c -> string_of_int (int_of_n c)) s)

let enc_q (q : q) : string =
  let num = match q.qnum with
    | Z0 -> "0"
    | Zpos p -> hex_of_pos p
    | Zneg p -> "-" ^ hex_of_pos p in
  "q" ^ num ^ "/" ^ hex_of_pos q.qden
let enc_xq = function
  | XF q -> enc_q q
  | XInf false -> "qinf"
  | XInf true -> "q-inf"
  | XNaN -> "qnan"

(* decimal printing of a binary N by repeated division (only used for a handful of tokens per case) *)
let big_dec (n : n) : string =
  match n with
  | N0 -> "0"
  | Npos p ->
    let h = hex_of_pos p in
    (* hex -> decimal via base-1e9 limbs *)
    let limbs = ref [0] in
    String.iter (fun c ->
        let carry = ref (hexval c) in
        limbs := List.map (fun l -> let v = l * 16 + !carry in carry := v / 1000000000; v mod 1000000000) !limbs;
        if !carry > 0 then limbs := !limbs @ [!carry]) h;
    let l = List.rev !limbs in
    (match l with
     | [] -> "0"
     | x :: r -> string_of_int x ^ String.concat "" (List.map (Printf.sprintf "%09d") r))

let n_of_dec (s : string) : n =
  (* decimal string -> N via hex conversion in base 16 limbs *)
  let digits = ref [0] in   (* little-endian base 65536 limbs *)
  String.iter (fun c ->
      let carry = ref (Char.code c - 48) in
      digits := List.map (fun l -> let v = l * 10 + !carry in carry := v / 65536; v mod 65536) !digits;
      if !carry > 0 then digits := !digits @ [!carry]) s;
  let hex = String.concat "" (List.rev_map (Printf.sprintf "%04x") !digits) in
  match pos_of_hex hex with None -> N0 | Some p -> Npos p

let kw_str = function
  | Ksize -> "size" | Kbar -> "|" | KX -> "X" | Klbrace -> "{" | Krbrace -> "}" | Ksemi -> ";"
  | Klbrack -> "[" | Krbrack -> "]" | Ktaxa -> "taxa" | Kcells -> "cells" | Kbranches -> "branches"
  | Knodes -> "nodes"

let tok_str = function
  | TK k -> kw_str k
  | TNat n -> string_of_int (int_of_nat n)
  | TNone -> "-"
  | TStr s -> enc_str s
  | TLen l -> enc_xq l
  | TBits b -> "b" ^ String.concat "" (List.map (fun x -> if x then "1" else "0") b)
  | TBig n -> big_dec n
  | TRs r -> "r" ^ String.concat "." (List.map (function C c -> string_of_int (int_of_n c) | Lv l -> enc_xq l) r)

let err_str = function
  | IsNotBinary -> "IsNotBinary" | IsNotRooted -> "IsNotRooted" | IsEmpty -> "IsEmpty"
  | RootNotFound -> "RootNotFound" | UnnamedLeaves -> "UnnamedLeaves"
  | DuplicateLeafNames -> "DuplicateLeafNames" | LeafIndexNotInitialized -> "LeafIndexNotInitialized"
  | MissingBranchLengths -> "MissingBranchLengths" | DifferentTipIndices -> "DifferentTipIndices"
  | NodeNotFound -> "NodeNotFound" | CouldNotCompressNode -> "CouldNotCompressNode"
  | MergingNonSiblingNodes -> "MergingNonSiblingNodes" | NodeError -> "NodeError"
  | TMatrixError -> "MatrixError" | WhiteSpaceInNumber -> "WhiteSpaceInNumber"
  | UnclosedBracket -> "UnclosedBracket" | NoClosingSemicolon -> "NoClosingSemicolon"
  | NoSubtreeParent -> "NoSubtreeParent" | NwTreeError -> "TreeNodeNotFound" | FloatError -> "FloatError"
  | MissingTaxon -> "MissingTaxon" | IndexError -> "IndexError"
  | NonZeroIdenticalDistance -> "NonZeroIdenticalDistance" | SizeError -> "SizeError"
  | EmptyMatrixFile -> "EmptyMatrixFile" | SizeParseError -> "SizeParseError" | EmptyRow -> "EmptyRow"
  | DistParseError -> "DistParseError" | PMissingDistance -> "MissingDistance"
  | SizeAndRowsMismatch -> "SizeAndRowsMismatch" | NonZeroDiagonalValue -> "NonZeroDiagonalValue"
  | NonSymmetric -> "NonSymmetric" | PMatrixError -> "MatrixError"

let nat s = nat_of_int (int_of_string s)
let bool_of s = s = "1"

let rec split_at_marker m = function
  | [] -> ([], [])
  | x :: r when x = m -> ([], r)
  | x :: r -> let (a, b) = split_at_marker m r in (x :: a, b)

let rec pairs_of = function
  | a :: b :: r -> (nat a, nat b) :: pairs_of r
  | _ -> []

let strip_prefix p s =
  let lp = String.length p in
  if String.length s >= lp && String.sub s 0 lp = p then Some (String.sub s lp (String.length s - lp)) else None

let parse_op (a : string list) : op option =
  match a with
  | ["sel"; k] -> Some (OSel (nat k))
  | ["new"] -> Some ONew
  | ["add"; nm; cm] -> Some (OAdd (dec_str nm, dec_str cm))
  | ["add_child"; p; nm; len; cm] -> Some (OAddChild (nat p, dec_str nm, dec_len len, dec_str cm))
  | ["parse"; s] -> Some (OParse (some_str s))
  | "gen" :: shape :: n :: brl :: rest ->
    (* gen shape n brl P p1 p2 ... L l1 l2 ... *)
    let rest = (match rest with "P" :: r -> r | r -> r) in
    let (ps, ls) = split_at_marker "L" rest in
    let ps = List.map nat ps and ls = List.map some_len ls in
    (match shape with
     | "yule" -> Some (OGenYule (nat n, bool_of brl, ps, ls))
     | "caterpillar" -> Some (OGenCat (nat n, bool_of brl, ls))
     | _ -> Some (OGenEte3 (nat n, bool_of brl, ps, ls)))
  | ["upgma"] -> Some OUpgma
  | ["prune"; i] -> Some (OPrune (nat i))
  | ["compress"] -> Some OCompress
  | "resolve" :: cs -> Some (OResolve (pairs_of cs))
  | ["ladderize"] -> Some OLadderize
  | ["rescale"; f] -> Some (ORescale (some_len f))
  | ["merge"; x; y; e1; e2; pe; nm] -> Some (OMerge (nat x, nat y, dec_len e1, dec_len e2, dec_len pe, dec_str nm))
  | ["reset_depths"] -> Some OResetDepths
  | ["reset_cache"] -> Some OResetCache
  | ["dump"] -> Some ODump
  | ["size"] -> Some OSize
  | ["n_leaves"] -> Some ONLeaves
  | ["get_root"] -> Some OGetRoot
  | ["get_leaves"] -> Some OGetLeaves
  | ["get_leaf_names"] -> Some OGetLeafNames
  | ["is_binary"] -> Some OIsBinary
  | ["is_rooted"] -> Some OIsRooted
  | ["unique_tips"] -> Some OUniqueTips
  | ["height"] -> Some OHeight
  | ["diameter"] -> Some ODiameter
  | ["length"] -> Some OLength
  | ["cherries"] -> Some OCherries
  | ["colless"] -> Some OColless
  | ["sackin"] -> Some OSackin
  | ["colless_yule"] | ["colless_pda"] -> Some OCollessN
  | ["sackin_yule"] | ["sackin_pda"] -> Some OSackinN
  | ["preorder"; i] -> Some (OPre (nat i))
  | ["postorder"; i] -> Some (OPost (nat i))
  | ["inorder"; i] -> Some (OIn (nat i))
  | ["levelorder"; i] -> Some (OLevel (nat i))
  | ["subtree"; i] -> Some (OSubtree (nat i))
  | ["descendants"; i] -> Some (ODesc (nat i))
  | ["subtree_leaves"; i] -> Some (OSubLeaves (nat i))
  | ["path"; i] -> Some (OPath (nat i))
  | ["lca"; x; y] -> Some (OLca (nat x, nat y))
  | ["dist"; x; y] -> Some (ODist (nat x, nat y))
  | ["get"; i] -> Some (OGet (nat i))
  | ["get_by_name"; s] -> Some (OGetByName (some_str s))
  | ["search"; "unnamed"] -> Some (OSearch (nat_of_int 0, None))
  | ["search"; "tip"] -> Some (OSearch (nat_of_int 1, None))
  | ["search"; "all"] -> Some (OSearch (nat_of_int 2, None))
  | ["search"; "name"; s] -> Some (OSearch (nat_of_int 3, dec_str s))
  | ["partitions"] -> Some OPartitions
  | ["p2l"; b] ->
    let body = String.sub b 1 (String.length b - 1) in
    Some (OP2L (List.init (String.length body) (fun i -> body.[i] = '1')))
  | ["rf"; k] -> Some (ORf (nat k))
  | ["rf_norm"; k] -> Some (ORfNorm (nat k))
  | ["wrf"; k] -> Some (OWrf (nat k))
  | ["kf"; k] -> Some (OKf (nat k))
  | ["cmp_topo"; k] -> Some (OCmpTopo (nat k))
  | ["cmp_branch"; k; t] -> Some (OCmpBranch (nat k, bool_of t))
  | ["dm"] -> Some ODm
  | ["dmr"] -> Some ODmr
  | ["dm_store"] -> Some ODmStore
  | ["to_newick"] -> Some OToNewick
  | ["to_fmt"; k] -> Some (OToFmt (fmt_of_nat (nat k)))
  | ["to_nexus"] -> Some OToNexus
  | "layout" :: _ -> Some OLayout
  | ["rt_newick"] -> Some ORtNewick
  | ["reparse"; k] -> Some (OReparse (nat k))
  | ["cli_collapse"; thr; ex] -> Some (OCliCollapse (some_len thr, bool_of ex))
  | "cli_remove" :: tips -> Some (OCliRemove (List.map some_str tips))
  | ["set_name"; i; nm] -> Some (OSetName (nat i, some_str nm))
  | ["rename_by_name"; o; nm] -> Some (ORenameByName (some_str o, some_str nm))
  | ["set_pedge"; i; e] -> Some (OSetPedge (nat i, dec_len e))
  | ["rt_fmt"; k] -> Some (ORtFmt (fmt_of_nat (nat k)))
  | ["tril"; n; i; j] -> if String.length i > 3 || String.length j > 3 then Some (OTrilN (n_of_dec i, n_of_dec j)) else Some (OTril (nat n, nat i, nat j))
  | ["rowvec"; n; k] -> if String.length k > 3 then Some (ORowvecN (n_of_dec k)) else Some (ORowvec (nat n, nat k))
  | op :: args ->
    let mop = (match strip_prefix "m32_" op with
        | Some x -> Some x
        | None -> strip_prefix "m_" op) in
    (match mop, args with
     | Some "sel", [k] -> Some (OMSel (nat k))
     | Some "new", n :: rest ->
       let n = int_of_string n in
       let taxa = List.filteri (fun i _ -> i < n) rest and vals = List.filteri (fun i _ -> i >= n) rest in
       Some (OMNew (List.map some_str taxa, List.map some_len vals))
     | Some "with_size", [n] -> Some (OMWithSize (nat n))
     | Some "set_taxa", taxa -> Some (OMSetTaxa (List.map some_str taxa))
     | Some "get", [x; y] -> Some (OMGet (some_str x, some_str y))
     | Some "set", [x; y; v] -> Some (OMSet (some_str x, some_str y, some_len v))
     | Some "taxa_index", [x] -> Some (OMTaxaIndex (some_str x))
     | Some "iter", [] -> Some OMIter
     | Some "indexed", [] -> Some OMIndexed
     | Some "to_map", [] -> Some OMToMap
     | Some "min", [] -> Some OMMin
     | Some "max", [] -> Some OMMax
     | Some "phylip", [sq] -> Some (OMPhylip (bool_of sq))
     | Some "from_strict", [t; sq] -> Some (OMFromStrict (some_str t, bool_of sq))
     | Some "from_tril", [t] -> Some (OMFromTril (some_str t))
     | Some "rt", [w; sq] -> Some (OMRt (w = "tril", bool_of sq))
     | Some "dump", [] -> Some OMDump
     | _ -> None)
  | [] -> None

let print_res oc = function
  | ROk [] -> output_string oc "ok\n"
  | ROk l -> output_string oc ("ok " ^ String.concat " " (List.map tok_str l) ^ "\n")
  | RErr e -> output_string oc ("err " ^ err_str e ^ "\n")
  | RPanic _ -> output_string oc "panic\n"
  | RFuel -> output_string oc "fuel\n"
  | RInvalid -> output_string oc "invalid\n"

let () =
  let ic = if Array.length Sys.argv > 1 then open_in Sys.argv.(1) else stdin in
  let oc = stdout in
  let ops = ref [] in          (* reversed: Some op | None (skipped) *)
  let flush_case () =
    let l = List.rev !ops in
    let real = List.filter_map (fun x -> x) l in
    let results = ref (run_case real) in
    List.iter (fun x ->
        match x with
        | None -> output_string oc "skip\n"
        | Some _ ->
          (match !results with
           | r :: rest -> print_res oc r; results := rest
           | [] -> output_string oc "missing\n")) l;
    ops := [] in
  let started = ref false in
  (try
     while true do
       let line = input_line ic in
       let a = List.filter (fun s -> s <> "") (split_on ' ' line) in
       match a with
       | [] -> ()
       | x :: _ when String.length x > 0 && x.[0] = '#' -> ()
       | "case" :: _ ->
         if !started then flush_case ();
         started := true;
         output_string oc (line ^ "\n")
       | _ -> ops := parse_op a :: !ops
     done
   with End_of_file -> ());
  if !started then flush_case ();
  flush oc
