// pt_harness: executes case scripts on the real phylotree crate and prints canonical observations.
// Script format: lines; `case <id>` starts a case; every other line is one op.
// Output: `case <id>` then one line per op: `ok <tokens>` | `err <Variant>` | `panic`.
use fixedbitset::FixedBitSet;
use phylotree::distance::{DistanceMatrix, MatrixError, PhylipParseError};
use phylotree::distr::Distr;
use phylotree::tree::{NewickFormat, NewickParseError, Node, Tree, TreeError};
use std::fmt::Write as _;
use std::io::{BufRead, BufWriter, Write};
use std::panic::{catch_unwind, AssertUnwindSafe};

mod mat;
use mat::MatRegs;

type R = Result<String, String>;

fn dec_str(tok: &str) -> Option<String> {
    if tok == "-" {
        return None;
    }
    let body = &tok[1..];
    if body.is_empty() {
        return Some(String::new());
    }
    Some(
        body.split('.')
            .map(|c| char::from_u32(c.parse::<u32>().unwrap()).unwrap())
            .collect(),
    )
}
pub fn enc_str(s: &str) -> String {
    let mut o = String::from("s");
    let mut first = true;
    for c in s.chars() {
        if !first {
            o.push('.');
        }
        first = false;
        write!(o, "{}", c as u32).unwrap();
    }
    o
}
pub fn enc_ostr(s: &Option<String>) -> String {
    match s {
        None => "-".into(),
        Some(s) => enc_str(s),
    }
}
fn dec_len(tok: &str) -> Option<f64> {
    if tok == "-" {
        return None;
    }
    // L<hexbits>:<num>:<den>
    let body = &tok[1..];
    let bits = body.split(':').next().unwrap();
    Some(f64::from_bits(u64::from_str_radix(bits, 16).unwrap()))
}
pub fn enc_f(v: f64) -> String {
    format!("f{:016x}", v.to_bits())
}
fn enc_of(v: Option<f64>) -> String {
    match v {
        None => "-".into(),
        Some(v) => enc_f(v),
    }
}
fn enc_ids(v: &[usize]) -> String {
    let mut o = String::from("[");
    for i in v {
        write!(o, " {}", i).unwrap();
    }
    o.push_str(" ]");
    o
}

fn terr(e: &TreeError) -> String {
    let s = match e {
        TreeError::IsNotBinary => "IsNotBinary",
        TreeError::IsNotRooted => "IsNotRooted",
        TreeError::IsEmpty => "IsEmpty",
        TreeError::RootNotFound => "RootNotFound",
        TreeError::UnnamedLeaves => "UnnamedLeaves",
        TreeError::DuplicateLeafNames => "DuplicateLeafNames",
        TreeError::LeafIndexNotInitialized => "LeafIndexNotInitialized",
        TreeError::MissingBranchLengths => "MissingBranchLengths",
        TreeError::DifferentTipIndices => "DifferentTipIndices",
        TreeError::NodeNotFound(_) => "NodeNotFound",
        TreeError::CouldNotCompressNode(_) => "CouldNotCompressNode",
        TreeError::MergingNonSiblingNodes(_, _) => "MergingNonSiblingNodes",
        TreeError::IoError(_) => "IoError",
        TreeError::NodeError(_) => "NodeError",
        TreeError::MatrixError(_) => "MatrixError",
        TreeError::GeneralError(_) => "GeneralError",
        #[allow(unreachable_patterns)]
        _ => "OtherTreeError", // a variant added to the crate later must not break the harness build
    };
    s.to_string()
}
pub fn merr(e: &MatrixError) -> String {
    let s = match e {
        MatrixError::OverwritingNotPermitted => "OverwritingNotPermitted",
        MatrixError::SizeExceeded => "SizeExceeded",
        MatrixError::MissingDistance(_, _) => "MissingDistance",
        MatrixError::IoError(_) => "IoError",
        MatrixError::MissingTaxon(_) => "MissingTaxon",
        MatrixError::IndexError => "IndexError",
        MatrixError::NonZeroIdenticalDistance => "NonZeroIdenticalDistance",
        MatrixError::SizeError { .. } => "SizeError",
        #[allow(unreachable_patterns)]
        _ => "OtherMatrixError",
    };
    s.to_string()
}
pub fn perr<T: std::fmt::Debug>(e: &PhylipParseError<T>) -> String {
    match e {
        PhylipParseError::EmptyMatrixFile => "EmptyMatrixFile".into(),
        PhylipParseError::SizeParseError(_) => "SizeParseError".into(),
        PhylipParseError::EmptyRow(_) => "EmptyRow".into(),
        PhylipParseError::DistParseError => "DistParseError".into(),
        PhylipParseError::MissingDistance(_) => "MissingDistance".into(),
        PhylipParseError::SizeAndRowsMismatch(_, _) => "SizeAndRowsMismatch".into(),
        PhylipParseError::NonZeroDiagonalValue(_) => "NonZeroDiagonalValue".into(),
        PhylipParseError::NonSymmetric(_, _) => "NonSymmetric".into(),
        PhylipParseError::NonSymmetricMat => "NonSymmetricMat".into(),
        PhylipParseError::MatrixError(m) => format!("Matrix{}", merr(m)),
        PhylipParseError::IoError(_) => "IoError".into(),
        #[allow(unreachable_patterns)]
        _ => "OtherPhylipParseError".into(),
    }
}
fn nerr(e: &NewickParseError) -> String {
    match e {
        NewickParseError::WhiteSpaceInNumber => "WhiteSpaceInNumber".into(),
        NewickParseError::UnclosedBracket => "UnclosedBracket".into(),
        NewickParseError::NoClosingSemicolon => "NoClosingSemicolon".into(),
        NewickParseError::NoSubtreeParent => "NoSubtreeParent".into(),
        NewickParseError::TreeError(t) => format!("Tree{}", terr(t)),
        NewickParseError::FloatError(_) => "FloatError".into(),
        NewickParseError::IoError(_) => "IoError".into(),
        #[allow(unreachable_patterns)]
        _ => "OtherNewickParseError".into(),
    }
}

fn tr<T>(r: Result<T, TreeError>, f: impl FnOnce(T) -> String) -> R {
    match r {
        Ok(v) => Ok(f(v)),
        Err(e) => Err(terr(&e)),
    }
}

fn mk_node(name: Option<String>, comment: Option<String>) -> Node {
    let mut n = match name {
        Some(nm) => Node::new_named(&nm),
        None => Node::new(),
    };
    n.comment = comment;
    n
}

fn dump(t: &Tree) -> String {
    let size = t.size();
    let mut o = format!("size {}", size);
    for i in 0..size {
        match t.get(&i) {
            Err(_) => o.push_str(" | X"),
            Ok(n) => {
                write!(
                    o,
                    " | {} {} {} {} {} {} {} {{",
                    n.id,
                    enc_ostr(&n.name),
                    n.parent.map(|p| p.to_string()).unwrap_or("-".into()),
                    enc_ids(&n.children),
                    enc_of(n.parent_edge),
                    enc_ostr(&n.comment),
                    n.get_depth()
                )
                .unwrap();
                // probe child edges on every id (and a few beyond the arena)
                for c in 0..size + 2 {
                    if let Some(e) = n.get_child_edge(&c) {
                        write!(o, " {} {}", c, enc_f(e)).unwrap();
                    }
                }
                o.push_str(" }");
            }
        }
    }
    o
}

fn bits_str(b: &FixedBitSet) -> String {
    let mut s = String::from("b");
    for i in 0..b.len() {
        s.push(if b.contains(i) { '1' } else { '0' });
    }
    s
}

fn fmt_of(k: usize) -> NewickFormat {
    match k {
        0 => NewickFormat::AllFields,
        1 => NewickFormat::Topology,
        2 => NewickFormat::NoComments,
        3 => NewickFormat::OnlyNames,
        4 => NewickFormat::OnlyLengths,
        5 => NewickFormat::LeafLengthsAllNames,
        6 => NewickFormat::LeafLengthsLeafNames,
        7 => NewickFormat::InternalLengthsLeafNames,
        _ => NewickFormat::AllLengthsLeafNames,
    }
}

fn dm_str(m: &DistanceMatrix<f64>) -> String {
    let mut o = format!("size {} taxa [", m.size);
    for t in m.taxa.iter() {
        write!(o, " {}", enc_str(t)).unwrap();
    }
    o.push_str(" ] cells [");
    for v in m.iter() {
        write!(o, " {}", enc_f(*v)).unwrap();
    }
    o.push_str(" ]");
    o
}

struct St {
    trees: Vec<Tree>,
    cur: usize,
    mats: MatRegs<f64>,
    mats32: MatRegs<f32>,
}

thread_local! {
    static PICKED: std::cell::RefCell<Vec<usize>> = std::cell::RefCell::new(vec![]);
}

// `$k` refers to the k-th id returned by the last `pick`
fn usz(s: &str) -> usize {
    if let Some(k) = s.strip_prefix('$') {
        let k: usize = k.parse().unwrap();
        return PICKED.with(|p| p.borrow().get(k).copied().unwrap_or(99999));
    }
    s.parse::<usize>().unwrap()
}

// pick <kind> <k>: resolves a selector against the current tree (so that random walks stay mostly valid)
fn pick(t: &Tree, kind: &str, k: usize) -> Vec<usize> {
    let live: Vec<usize> = (0..t.size()).filter(|i| t.get(i).is_ok()).collect();
    let sel = |v: &Vec<usize>| -> Vec<usize> {
        if v.is_empty() {
            vec![]
        } else {
            vec![v[k % v.len()]]
        }
    };
    match kind {
        "live" => sel(&live),
        "removed" => sel(&(0..t.size()).filter(|i| t.get(i).is_err()).collect()),
        "root" => match t.get_root() {
            Ok(r) => vec![r],
            Err(_) => vec![],
        },
        "nonroot" => sel(&live.iter().copied().filter(|i| t.get(i).unwrap().parent.is_some()).collect()),
        "leaf" => sel(&live.iter().copied().filter(|i| t.get(i).unwrap().is_tip()).collect()),
        "internal" => sel(&live.iter().copied().filter(|i| !t.get(i).unwrap().is_tip()).collect()),
        "sibpair" => {
            let ps: Vec<usize> = live.iter().copied().filter(|i| t.get(i).unwrap().children.len() >= 2).collect();
            if ps.is_empty() {
                vec![]
            } else {
                let p = ps[k % ps.len()];
                let ch = &t.get(&p).unwrap().children;
                let a = (k / ps.len()) % ch.len();
                let mut b = (k / ps.len() / ch.len()) % (ch.len() - 1);
                if b >= a {
                    b += 1;
                }
                vec![ch[a], ch[b]]
            }
        }
        _ => vec![k % (t.size() + 2)],
    }
}

fn run_op(st: &mut St, a: &[&str]) -> R {
    let cur = st.cur;
    match a[0] {
        "sel" => {
            let k = usz(a[1]);
            while st.trees.len() <= k {
                st.trees.push(Tree::new());
            }
            st.cur = k;
            Ok(String::new())
        }
        "pick" => {
            let v = pick(&st.trees[cur], a[1], a[2].parse::<usize>().unwrap());
            PICKED.with(|p| *p.borrow_mut() = v.clone());
            Ok(enc_ids(&v))
        }
        "new" => {
            st.trees[cur] = Tree::new();
            Ok(String::new())
        }
        "add" => {
            let id = st.trees[cur].add(mk_node(dec_str(a[1]), dec_str(a[2])));
            Ok(id.to_string())
        }
        "add_child" => {
            let node = mk_node(dec_str(a[2]), dec_str(a[4]));
            tr(st.trees[cur].add_child(node, usz(a[1]), dec_len(a[3])), |i| i.to_string())
        }
        "parse" => {
            let s = dec_str(a[1]).unwrap();
            match Tree::from_newick(&s) {
                Ok(t) => {
                    st.trees[cur] = t;
                    Ok(String::new())
                }
                Err(e) => Err(nerr(&e)),
            }
        }
        "gen" => {
            // gen shape n brlens distr seed
            let n = usz(a[2]);
            let brlens = a[3] == "1";
            let distr = match a[4] {
                "uniform" => Distr::Uniform,
                "exponential" => Distr::Exponential,
                _ => Distr::Gamma,
            };
            phylotree::verif_hooks::set_seed(a[5].parse::<u64>().unwrap());
            let r = match a[1] {
                "yule" => phylotree::generate_yule(n, brlens, distr),
                "caterpillar" => phylotree::generate_caterpillar(n, brlens, distr),
                _ => phylotree::generate_tree(n, brlens, distr),
            };
            match r {
                Ok(t) => {
                    st.trees[cur] = t;
                    Ok(String::new())
                }
                Err(e) => Err(terr(&e)),
            }
        }
        "gen_stats" => {
            // gen_stats shape n brlens distr seed reps : aggregate over reps generated trees (support of the lengths, sizes), implementation only
            let n = usz(a[2]);
            let brlens = a[3] == "1";
            let distr = match a[4] {
                "uniform" => Distr::Uniform,
                "exponential" => Distr::Exponential,
                _ => Distr::Gamma,
            };
            let seed = a[5].parse::<u64>().unwrap();
            let reps = usz(a[6]);
            let (mut cnt, mut missing, mut badshape, mut nonfinite) = (0u64, 0u64, 0u64, 0u64);
            let (mut mn, mut mx) = (f64::INFINITY, f64::NEG_INFINITY);
            for r in 0..reps {
                phylotree::verif_hooks::set_seed(seed.wrapping_add(r as u64));
                let t = match a[1] {
                    "yule" => phylotree::generate_yule(n, brlens, distr),
                    "caterpillar" => phylotree::generate_caterpillar(n, brlens, distr),
                    _ => phylotree::generate_tree(n, brlens, distr),
                };
                let t = match t {
                    Ok(t) => t,
                    Err(e) => return Err(terr(&e)),
                };
                if t.size() != 2 * n - 1 || t.n_leaves() != n {
                    badshape += 1;
                }
                let root = t.get_root().map_err(|e| terr(&e))?;
                for id in t.preorder(&root).map_err(|e| terr(&e))? {
                    if id == root {
                        continue;
                    }
                    match t.get(&id).map_err(|e| terr(&e))?.parent_edge {
                        Some(v) => {
                            cnt += 1;
                            if !v.is_finite() {
                                nonfinite += 1;
                            } else {
                                if v < mn {
                                    mn = v;
                                }
                                if v > mx {
                                    mx = v;
                                }
                            }
                        }
                        None => missing += 1,
                    }
                }
            }
            Ok(format!("{} {} {} {} f{:016x} f{:016x}", cnt, missing, badshape, nonfinite, mn.to_bits(), mx.to_bits()))
        }
        "upgma" => match st.mats.cur().upgma() {
            Ok(t) => {
                st.trees[cur] = t;
                Ok(String::new())
            }
            Err(e) => Err(merr(&e)),
        },
        "prune" => tr(st.trees[cur].prune(&usz(a[1])), |_| String::new()),
        "compress" => tr(st.trees[cur].compress(), |_| String::new()),
        "resolve" => {
            phylotree::verif_hooks::set_seed(a[1].parse::<u64>().unwrap());
            tr(st.trees[cur].resolve(), |_| String::new())
        }
        "ladderize" => tr(st.trees[cur].ladderize(), |_| String::new()),
        "rescale" => {
            st.trees[cur].rescale(dec_len(a[1]).unwrap());
            Ok(String::new())
        }
        "merge" => tr(
            st.trees[cur].merge_children(
                &usz(a[1]),
                &usz(a[2]),
                dec_len(a[3]),
                dec_len(a[4]),
                dec_len(a[5]),
                dec_str(a[6]),
            ),
            |i| i.to_string(),
        ),
        "reset_depths" => tr(st.trees[cur].reset_depths(), |_| String::new()),
        "reset_cache" => {
            st.trees[cur].reset_bipartition_cache();
            Ok(String::new())
        }
        "dump" => Ok(dump(&st.trees[cur])),
        // the two compositions of the command-line tool, written against the library exactly as main.rs does
        "cli_collapse" => {
            let threshold = dec_len(a[1]).unwrap();
            let exclude_tips = a[2] == "1";
            let tree = &mut st.trees[cur];
            let root = match tree.get_root() {
                Ok(r) => r,
                Err(e) => return Err(terr(&e)),
            };
            let order = match tree.preorder(&root) {
                Ok(o) => o,
                Err(e) => return Err(terr(&e)),
            };
            for node_idx in order.iter() {
                let node = tree.get_mut(node_idx).unwrap();
                if exclude_tips && node.is_tip() {
                    continue;
                }
                let parent_idx = node.parent;
                let mut collapsed = false;
                if let (Some(len), Some(parent)) = (node.parent_edge, parent_idx) {
                    if len < threshold {
                        node.set_parent(parent, Some(0.0));
                        collapsed = true;
                    }
                }
                if collapsed {
                    let parent = tree.get_mut(&parent_idx.unwrap()).unwrap();
                    parent.set_child_edge(node_idx, Some(0.0))
                }
            }
            Ok(String::new())
        }
        "cli_remove" => {
            let tree = &mut st.trees[cur];
            for tok in a[1..].iter() {
                let name = dec_str(tok).unwrap();
                let node = tree.get_by_name(&name).unwrap();
                if !node.is_tip() {
                    panic!("not a tip");
                }
                let id = node.id;
                if let Err(e) = tree.prune(&id) {
                    return Err(terr(&e));
                }
            }
            tr(tree.compress(), |_| String::new())
        }
        "set_name" => match st.trees[cur].get_mut(&usz(a[1])) {
            Ok(n) => {
                n.set_name(dec_str(a[2]).unwrap());
                Ok(String::new())
            }
            Err(e) => Err(terr(&e)),
        },
        "rename_by_name" => Ok(match st.trees[cur].get_by_name_mut(&dec_str(a[1]).unwrap()) {
            Some(n) => {
                n.set_name(dec_str(a[2]).unwrap());
                n.id.to_string()
            }
            None => "-".into(),
        }),
        "set_pedge" => match st.trees[cur].get_mut(&usz(a[1])) {
            Ok(n) => {
                n.parent_edge = dec_len(a[2]);
                Ok(String::new())
            }
            Err(e) => Err(terr(&e)),
        },
        "reparse" => {
            let k = usz(a[1]);
            while st.trees.len() <= k {
                st.trees.push(Tree::new());
            }
            match st.trees[cur].to_newick() {
                Err(e) => Err(terr(&e)),
                Ok(s) => match Tree::from_newick(&s) {
                    Err(e) => Err(nerr(&e)),
                    Ok(t2) => {
                        st.trees[k] = t2;
                        Ok(String::new())
                    }
                },
            }
        }
        _ => run_query(st, a),
    }
}

fn run_query(st: &mut St, a: &[&str]) -> R {
    let t = &st.trees[st.cur];
    match a[0] {
        "size" => Ok(t.size().to_string()),
        "n_leaves" => Ok(t.n_leaves().to_string()),
        "get_root" => tr(t.get_root(), |i| i.to_string()),
        "get_leaves" => Ok(enc_ids(&t.get_leaves())),
        "get_leaf_names" => {
            let mut o = String::from("[");
            for n in t.get_leaf_names() {
                write!(o, " {}", enc_ostr(&n)).unwrap();
            }
            o.push_str(" ]");
            Ok(o)
        }
        "is_binary" => tr(t.is_binary(), |b| (b as u8).to_string()),
        "is_rooted" => tr(t.is_rooted(), |b| (b as u8).to_string()),
        "unique_tips" => tr(t.has_unique_tip_names(), |b| (b as u8).to_string()),
        "height" => tr(t.height(), enc_f),
        "diameter" => tr(t.diameter(), enc_f),
        "length" => tr(t.length(), enc_f),
        "cherries" => tr(t.cherries(), |v| v.to_string()),
        "colless" => tr(t.colless(), |v| v.to_string()),
        "sackin" => tr(t.sackin(), |v| v.to_string()),
        "colless_yule" => tr(t.colless_yule(), enc_f),
        "colless_pda" => tr(t.colless_pda(), enc_f),
        "sackin_yule" => tr(t.sackin_yule(), enc_f),
        "sackin_pda" => tr(t.sackin_pda(), enc_f),
        "preorder" => tr(t.preorder(&usz(a[1])), |v| enc_ids(&v)),
        "postorder" => tr(t.postorder(&usz(a[1])), |v| enc_ids(&v)),
        "inorder" => tr(t.inorder(&usz(a[1])), |v| enc_ids(&v)),
        "levelorder" => tr(t.levelorder(&usz(a[1])), |v| enc_ids(&v)),
        "subtree" => tr(t.get_subtree(&usz(a[1])), |v| enc_ids(&v)),
        "descendants" => tr(t.get_descendants(&usz(a[1])), |v| enc_ids(&v)),
        "subtree_leaves" => tr(t.get_subtree_leaves(&usz(a[1])), |v| enc_ids(&v)),
        "path" => tr(t.get_path_from_root(&usz(a[1])), |v| enc_ids(&v)),
        "lca" => tr(t.get_common_ancestor(&usz(a[1]), &usz(a[2])), |v| v.to_string()),
        "dist" => tr(t.get_distance(&usz(a[1]), &usz(a[2])), |(d, k)| {
            format!("{} {}", enc_of(d), k)
        }),
        "get" => tr(t.get(&usz(a[1])), |n| n.id.to_string()),
        "get_by_name" => Ok(match t.get_by_name(&dec_str(a[1]).unwrap()) {
            Some(n) => n.id.to_string(),
            None => "-".into(),
        }),
        "search" => {
            let v = match a[1] {
                "unnamed" => t.search_nodes(|n| n.name.is_none()),
                "tip" => t.search_nodes(|n| n.is_tip()),
                "all" => t.search_nodes(|_| true),
                _ => {
                    let nm = dec_str(a[2]);
                    t.search_nodes(|n| n.name == nm)
                }
            };
            Ok(enc_ids(&v))
        }
        "partitions" => match t.get_partitions() {
            Err(e) => Err(terr(&e)),
            Ok(ps) => {
                let mut items: Vec<String> = vec![];
                for p in ps.iter() {
                    let l = match t.partition_to_leaves(p) {
                        Ok(s) => enc_str(&s),
                        Err(e) => format!("E{}", terr(&e)),
                    };
                    items.push(format!("{} {}", bits_str(p), l));
                }
                items.sort();
                Ok(format!("{{ {} }}", items.join(" ; ")))
            }
        },
        "p2l" => {
            // partition_to_leaves with an explicit (possibly foreign) bitset b0101
            let bits = &a[1][1..];
            let mut b = FixedBitSet::with_capacity(bits.len());
            for (i, c) in bits.chars().enumerate() {
                if c == '1' {
                    b.insert(i);
                }
            }
            tr(t.partition_to_leaves(&b), |s| enc_str(&s))
        }
        "rf" => tr(t.robinson_foulds(&st.trees[usz(a[1])]), |v| v.to_string()),
        "rf_norm" => tr(t.robinson_foulds_norm(&st.trees[usz(a[1])]), enc_f),
        "wrf" => tr(t.weighted_robinson_foulds(&st.trees[usz(a[1])]), enc_f),
        "kf" => tr(t.khuner_felsenstein(&st.trees[usz(a[1])]), enc_f),
        "cmp_topo" => tr(t.compare_topologies(&st.trees[usz(a[1])]), |c| {
            format!(
                "{} {} {} {}",
                enc_f(c.rf),
                enc_f(c.norm_rf),
                enc_f(c.weighted_rf),
                enc_f(c.branch_score)
            )
        }),
        "cmp_branch" => tr(
            t.compare_branch_lengths(&st.trees[usz(a[1])], a[2] == "1"),
            |(s, o, c)| {
                let f = |v: &Vec<(usize, f64)>| {
                    v.iter()
                        .map(|(d, l)| format!("{} {}", d, enc_f(*l)))
                        .collect::<Vec<_>>()
                        .join(" ; ")
                };
                let cs = c
                    .iter()
                    .map(|((d1, l1), (d2, l2))| {
                        format!("{} {} {} {}", d1, enc_f(*l1), d2, enc_f(*l2))
                    })
                    .collect::<Vec<_>>()
                    .join(" ; ");
                format!("{{ {} }} {{ {} }} {{ {} }}", f(&s), f(&o), cs)
            },
        ),
        "dm" => tr(t.distance_matrix(), |m| dm_str(&m)),
        "dmr" => tr(t.distance_matrix_recursive(), |m| dm_str(&m)),
        "dm_store" => match t.distance_matrix() {
            Ok(m) => {
                let s = dm_str(&m);
                st.mats.set_cur(m);
                Ok(s)
            }
            Err(e) => Err(terr(&e)),
        },
        "to_newick" => tr(t.to_newick(), |s| enc_str(&s)),
        "rt_fmt" => match t.to_formatted_newick(fmt_of(usz(a[1]))) {
            Err(e) => Err(terr(&e)),
            Ok(s) => match Tree::from_newick(&s) {
                Err(e) => Err(format!("{} text {}", nerr(&e), enc_str(&s))),
                Ok(t2) => Ok(format!("{} {}", enc_str(&s), dump(&t2))),
            },
        },
        "rt_newick" => match t.to_newick() {
            Err(e) => Err(terr(&e)),
            Ok(s) => match Tree::from_newick(&s) {
                Err(e) => Err(format!("{} text {}", nerr(&e), enc_str(&s))),
                Ok(t2) => match t2.to_newick() {
                    Err(e) => Err(terr(&e)),
                    Ok(s2) => Ok(format!("{} {} {}", enc_str(&s), dump(&t2), enc_str(&s2))),
                },
            },
        },
        "to_fmt" => tr(t.to_formatted_newick(fmt_of(usz(a[1]))), |s| enc_str(&s)),
        "to_nexus" => tr(t.to_nexus(), |s| enc_str(&s)),
        "layout" => tr(phylotree::tree::draw::radial_layout(t), |mut l| {
            if a.len() > 1 {
                l.rescale(dec_len(a[1]).unwrap());
            }
            let mut o = String::from("branches [");
            for b in l.branches.iter() {
                write!(
                    o,
                    " {} {} {} {} ;",
                    enc_f(b.xstart),
                    enc_f(b.ystart),
                    enc_f(b.xend),
                    enc_f(b.yend)
                )
                .unwrap();
            }
            o.push_str(" ] nodes [");
            for n in l.nodes.iter() {
                write!(o, " {} {} {} ;", enc_f(n.x), enc_f(n.y), enc_ostr(&n.label)).unwrap();
            }
            o.push_str(" ]");
            o
        }),
        "tril" => Ok(phylotree::verif_hooks::tril_to_rowvec_index(usz(a[1]), usz(a[2]), usz(a[3]))
            .to_string()),
        "rowvec" => {
            let (i, j) = phylotree::verif_hooks::rowvec_to_tril_index(usz(a[1]), usz(a[2]));
            Ok(format!("{} {}", i, j))
        }
        "rowvec_sweep" => {
            // rowvec_sweep lo hi step: every triangular number T(p), p in lo..hi by step, and its two neighbours,
            // against the exact integer inverse (u128 integer square root)
            let lo: u128 = a[1].parse().unwrap();
            let hi: u128 = a[2].parse().unwrap();
            let step: u128 = a[3].parse().unwrap();
            fn isqrt(n: u128) -> u128 {
                if n == 0 {
                    return 0;
                }
                let mut x = (n as f64).sqrt() as u128;
                while x * x > n {
                    x -= 1;
                }
                while (x + 1) * (x + 1) <= n {
                    x += 1;
                }
                x
            }
            let mut checked: u64 = 0;
            let mut bad: u64 = 0;
            let mut first: i128 = -1;
            let mut p = lo;
            while p < hi {
                let t = p * (p + 1) / 2;
                for k in [t.wrapping_sub(1), t, t + 1] {
                    if k > (1u128 << 100) {
                        continue;
                    }
                    let pe = (isqrt(8 * k + 1) - 1) / 2;
                    let exp = ((pe + 1) as usize, (k - pe * (pe + 1) / 2) as usize);
                    let got = phylotree::verif_hooks::rowvec_to_tril_index(0, k as usize);
                    checked += 1;
                    if got != exp {
                        bad += 1;
                        if first < 0 {
                            first = k as i128;
                        }
                    }
                }
                p += step;
            }
            Ok(format!("{} {} {}", checked, bad, first))
        }
        "stdfmt" => {
            let v = dec_len(a[1]).unwrap();
            Ok(enc_str(&format!("{}", v)))
        }
        "stdparse" => match dec_str(a[1]).unwrap().parse::<f64>() {
            Ok(v) => Ok(enc_f(v)),
            Err(_) => Err("FloatError".into()),
        },
        "stdfmt32" => {
            let v = f32::from_bits(u32::from_str_radix(a[1], 16).unwrap());
            Ok(enc_str(&format!("{}", v)))
        }
        x if x.starts_with("m32_") => st.mats32.run(&a[0][4..], a),
        x if x.starts_with("m_") => st.mats.run(&a[0][2..], a),
        other => panic!("unknown op {}", other),
    }
}

fn main() {
    let args: Vec<String> = std::env::args().collect();
    std::panic::set_hook(Box::new(|_| {}));
    let input: Box<dyn BufRead> = if args.len() > 1 {
        Box::new(std::io::BufReader::new(std::fs::File::open(&args[1]).unwrap()))
    } else {
        Box::new(std::io::BufReader::new(std::io::stdin()))
    };
    let stdout = std::io::stdout();
    let mut out = BufWriter::new(stdout.lock());
    let mut st = St {
        trees: vec![Tree::new()],
        cur: 0,
        mats: MatRegs::new(),
        mats32: MatRegs::new(),
    };
    for line in input.lines() {
        let line = line.unwrap();
        let a: Vec<&str> = line.split(' ').filter(|s| !s.is_empty()).collect();
        if a.is_empty() || a[0].starts_with('#') {
            continue;
        }
        if a[0] == "case" {
            st = St {
                trees: vec![Tree::new()],
                cur: 0,
                mats: MatRegs::new(),
                mats32: MatRegs::new(),
            };
            writeln!(out, "{}", line).unwrap();
            if a.len() > 2 && a[2] == "flush" {
                out.flush().unwrap();
            }
            continue;
        }
        let r = catch_unwind(AssertUnwindSafe(|| run_op(&mut st, &a)));
        match r {
            Ok(Ok(s)) => {
                if s.is_empty() {
                    writeln!(out, "ok").unwrap()
                } else {
                    writeln!(out, "ok {}", s).unwrap()
                }
            }
            Ok(Err(e)) => writeln!(out, "err {}", e).unwrap(),
            Err(_) => writeln!(out, "panic").unwrap(),
        }
    }
    out.flush().unwrap();
}
