// Distance-matrix registers, generic over the cell type (f64 / f32).
use crate::{enc_str, merr, perr};
use phylotree::distance::{DistanceMatrix, PairwiseDist};
use std::fmt::Write as _;

pub trait Cell: PairwiseDist + 'static {
    fn enc(self) -> String;
    fn from_tok(tok: &str) -> Self;
}
impl Cell for f64 {
    fn enc(self) -> String {
        format!("f{:016x}", self.to_bits())
    }
    fn from_tok(tok: &str) -> Self {
        let bits = tok[1..].split(':').next().unwrap();
        f64::from_bits(u64::from_str_radix(bits, 16).unwrap())
    }
}
impl Cell for f32 {
    fn enc(self) -> String {
        format!("g{:08x}", self.to_bits())
    }
    fn from_tok(tok: &str) -> Self {
        let bits = tok[1..].split(':').next().unwrap();
        f32::from_bits(u32::from_str_radix(bits, 16).unwrap())
    }
}

pub struct MatRegs<T: Cell> {
    mats: Vec<DistanceMatrix<T>>,
    cur: usize,
}

fn dstr(tok: &str) -> String {
    let body = &tok[1..];
    if body.is_empty() {
        return String::new();
    }
    body.split('.')
        .map(|c| char::from_u32(c.parse::<u32>().unwrap()).unwrap())
        .collect()
}

pub fn mdump<T: Cell>(m: &DistanceMatrix<T>) -> String {
    let mut o = format!("size {} taxa [", m.size);
    for t in m.taxa.iter() {
        write!(o, " {}", enc_str(t)).unwrap();
    }
    o.push_str(" ] cells [");
    for v in m.iter() {
        write!(o, " {}", v.enc()).unwrap();
    }
    o.push_str(" ]");
    o
}

impl<T: Cell> MatRegs<T> {
    pub fn new() -> Self {
        Self {
            mats: vec![DistanceMatrix::new(vec![], &[])],
            cur: 0,
        }
    }
    pub fn cur(&self) -> &DistanceMatrix<T> {
        &self.mats[self.cur]
    }
    pub fn set_cur(&mut self, m: DistanceMatrix<T>) {
        let c = self.cur;
        self.mats[c] = m;
    }
    pub fn run(&mut self, op: &str, a: &[&str]) -> Result<String, String> {
        let cur = self.cur;
        match op {
            "sel" => {
                let k: usize = a[1].parse().unwrap();
                while self.mats.len() <= k {
                    self.mats.push(DistanceMatrix::new(vec![], &[]));
                }
                self.cur = k;
                Ok(String::new())
            }
            "new" => {
                let n: usize = a[1].parse().unwrap();
                let taxa: Vec<String> = a[2..2 + n].iter().map(|t| dstr(t)).collect();
                let vals: Vec<T> = a[2 + n..].iter().map(|t| T::from_tok(t)).collect();
                self.mats[cur] = DistanceMatrix::new(taxa, &vals);
                Ok(String::new())
            }
            "with_size" => {
                self.mats[cur] = DistanceMatrix::new_with_size(a[1].parse().unwrap());
                Ok(String::new())
            }
            "set_taxa" => {
                let taxa: Vec<String> = a[1..].iter().map(|t| dstr(t)).collect();
                match self.mats[cur].set_taxa(taxa) {
                    Ok(()) => Ok(String::new()),
                    Err(e) => Err(merr(&e)),
                }
            }
            "get" => match self.mats[cur].get(&dstr(a[1]), &dstr(a[2])) {
                Ok(v) => Ok(v.enc()),
                Err(e) => Err(merr(&e)),
            },
            "set" => match self.mats[cur].set(&dstr(a[1]), &dstr(a[2]), T::from_tok(a[3])) {
                Ok(()) => Ok(String::new()),
                Err(e) => Err(merr(&e)),
            },
            "taxa_index" => match self.mats[cur].get_taxa_index(&dstr(a[1])) {
                Ok(v) => Ok(v.to_string()),
                Err(e) => Err(merr(&e)),
            },
            "iter" => {
                let mut o = String::from("[");
                for v in self.mats[cur].iter() {
                    write!(o, " {}", v.enc()).unwrap();
                }
                o.push_str(" ]");
                Ok(o)
            }
            "indexed" => {
                let mut o = String::from("[");
                for ((i, j), v) in self.mats[cur].indexed_iter() {
                    write!(o, " {} {} {} ;", i, j, v.enc()).unwrap();
                }
                o.push_str(" ]");
                Ok(o)
            }
            "indexed_check" => {
                // indexed_check n : a fresh matrix of size n; every cell index reported by indexed_iter against the integer inverse of the
                // row-major triangular index (k-th cell <-> (i, j), j < i, k = i(i-1)/2 + j); implementation only
                let n: usize = a[1].parse().unwrap();
                let m: DistanceMatrix<T> = DistanceMatrix::new_with_size(n);
                let (mut k, mut bad, mut first) = (0usize, 0usize, String::from("-"));
                let (mut ei, mut ej) = (1usize, 0usize);
                for ((i, j), _) in m.indexed_iter() {
                    if (i, j) != (ei, ej) {
                        if bad == 0 {
                            first = format!("{}:{}.{}!={}.{}", k, i, j, ei, ej);
                        }
                        bad += 1;
                    }
                    k += 1;
                    ej += 1;
                    if ej == ei {
                        ei += 1;
                        ej = 0;
                    }
                }
                Ok(format!("{} {} {}", k, bad, first))
            }
            "to_map" => {
                let m = self.mats[cur].to_map();
                let mut items: Vec<String> = m
                    .iter()
                    .map(|((x, y), v)| format!("{} {} {}", enc_str(x), enc_str(y), v.enc()))
                    .collect();
                items.sort();
                Ok(format!("{{ {} }}", items.join(" ; ")))
            }
            "min" => Ok(match self.mats[cur].min() {
                None => "-".into(),
                Some(((i, j), v)) => format!("{} {} {}", i, j, v.enc()),
            }),
            "max" => Ok(match self.mats[cur].max() {
                None => "-".into(),
                Some(((i, j), v)) => format!("{} {} {}", i, j, v.enc()),
            }),
            "phylip" => match self.mats[cur].to_phylip(a[1] == "1") {
                Ok(s) => Ok(enc_str(&s)),
                Err(e) => Err(merr(&e)),
            },
            "from_strict" => {
                match DistanceMatrix::<T>::from_phylip_strict(&dstr(a[1]), a[2] == "1") {
                    Ok(m) => {
                        let s = mdump(&m);
                        self.mats[cur] = m;
                        Ok(s)
                    }
                    Err(e) => Err(perr(&e)),
                }
            }
            "from_tril" => match DistanceMatrix::<T>::from_phylip_tril(&dstr(a[1])) {
                Ok(m) => {
                    let s = mdump(&m);
                    self.mats[cur] = m;
                    Ok(s)
                }
                Err(e) => Err(perr(&e)),
            },
            "rt" => {
                // rt <strict|tril> <sq>: write then parse with the given entry point
                let sq = a[2] == "1";
                let text = match self.mats[cur].to_phylip(sq) {
                    Ok(s) => s,
                    Err(e) => return Err(merr(&e)),
                };
                let r = if a[1] == "tril" {
                    DistanceMatrix::<T>::from_phylip_tril(&text)
                } else {
                    DistanceMatrix::<T>::from_phylip_strict(&text, sq)
                };
                match r {
                    Ok(m) => Ok(format!("{} {}", enc_str(&text), mdump(&m))),
                    Err(e) => Err(format!("{} text {}", perr(&e), enc_str(&text))),
                }
            }
            "dump" => Ok(mdump(&self.mats[cur])),
            other => panic!("unknown matrix op {}", other),
        }
    }
}
